#!/usr/bin/env python3
"""Apply a patch to a scratch copy of /repo, optionally run the pinned test-suite there,
run the named checks against the copy (VERIF_REPO), report, and delete the copy.

  tools/run_mutant.py --patch mutants/x.diff --checks C01,C02 [--tests] [--tier quick]
"""
import argparse
import os
import shutil
import subprocess
import sys
import tempfile

VERIF = os.path.dirname(os.path.dirname(os.path.abspath(__file__)))


def main():
    ap = argparse.ArgumentParser()
    ap.add_argument("--patch", required=True)
    ap.add_argument("--checks", required=True)
    ap.add_argument("--tests", action="store_true")
    ap.add_argument("--tier", default="quick")
    ap.add_argument("--repo", default="/repo")
    a = ap.parse_args()
    scratch = tempfile.mkdtemp(prefix="mut-", dir=os.environ.get("VERIF_SCRATCH", "/var/tmp"))
    try:
        dst = os.path.join(scratch, "repo")
        shutil.copytree(a.repo, dst, ignore=shutil.ignore_patterns(".git", "__pycache__", "*.pyc", ".pytest_cache"))
        p = subprocess.run(["patch", "-p1", "-s", "-i", os.path.abspath(a.patch)], cwd=dst)
        if p.returncode:
            print("PATCH-FAILED", a.patch)
            return 3
        tests_ok = None
        if a.tests:
            t = subprocess.run(["/venv/bin/python", "-m", "pytest", "-q", "-x", "-p", "no:cacheprovider",
                                "--timeout=900", "dali/tests"], cwd=dst, capture_output=True, text=True,
                               env=dict(os.environ, PYTHONDONTWRITEBYTECODE="1"))
            tests_ok = t.returncode == 0
            print("TESTS", "pass" if tests_ok else "FAIL", t.stdout.strip().splitlines()[-1] if t.stdout.strip() else "")
        results = {}
        for cid in a.checks.split(","):
            c = subprocess.run([os.path.join(VERIF, "check"), cid, "--tier", a.tier], cwd=VERIF,
                               capture_output=True, text=True,
                               env=dict(os.environ, VERIF_REPO=dst, VERIF_EVIDENCE_DIR=scratch))
            viol = [l for l in c.stdout.splitlines() if l.startswith("VIOLATION")]
            keys = [l.strip() for l in c.stdout.splitlines() if l.startswith("  [")]
            results[cid] = (c.returncode, len(viol))
            print(f"CHECK {cid}: rc={c.returncode} violations={len(viol)}")
            for k in keys[:4]:
                print("   ", k[:230])
            if c.returncode not in (0, 1):
                print(c.stdout[-1500:], c.stderr[-1500:])
        caught = any(rc == 1 for rc, _ in results.values())
        print("MUTANT", os.path.basename(a.patch), "CAUGHT" if caught else "MISSED",
              "" if tests_ok is None else ("tests-pass" if tests_ok else "tests-fail"))
        return 0 if caught else 1
    finally:
        shutil.rmtree(scratch, ignore_errors=True)


if __name__ == "__main__":
    sys.exit(main())
