#!/usr/bin/env python3
"""Rewrite the generated part of DESIGN.md section 14 from seeded/*/meta.json and mutants/results.json."""
import glob
import json
import os

VERIF = os.path.dirname(os.path.dirname(os.path.abspath(__file__)))
BEGIN, END = "<!-- DETECTION:BEGIN -->", "<!-- DETECTION:END -->"


def main():
    out = [BEGIN, ""]
    out.append("### 14.1 Independently seeded changes (`seeded/<id>/`)\n")
    out.append("Each was written by a fresh sub-agent that saw only the property text and a scratch worktree; each was re-confirmed "
               "in a fresh copy of `/repo` (demo fails with the patch, passes without, pinned suite 110 passed) before being kept.\n")
    out.append("| seed | needs to manifest | detected by (quick tier) | first violation key |")
    out.append("|---|---|---|---|")
    n = caught = own = 0
    for f in sorted(glob.glob(os.path.join(VERIF, "seeded", "*", "meta.json"))):
        m = json.load(open(f))
        n += 1
        det = [c for c, v in m["detected_by"].items() if v]
        caught += bool(det)
        own += m["property"] in det
        keys = [k for c in det for k in m["violation_keys"].get(c, [])][:1]
        key = keys[0].split("]")[0].lstrip("[") if keys else ""
        out.append(f"| `{m['seed']}`{'' if m['confirmed'] else ' (NOT CONFIRMED)'} | {m['needs_to_manifest']} | {', '.join(det) if det else '**missed**'} | `{key}` |")
    out.append(f"\n{caught} of {n} seeded changes are reported at the quick tier; {own} by the check of the property they were written against, "
               f"{caught - own} only by the check of a neighbouring property whose statement covers the same behaviour (see 13.1).\n")
    rp = os.path.join(VERIF, "mutants", "results.json")
    if os.path.exists(rp):
        rs = json.load(open(rp))
        out.append("### 14.2 Own mutants (`mutants/catalog.py`, `mutants/*.diff`; run by `tools/run_mutants.py`)\n")
        out.append("`suite` = does the pinned test-suite still pass with the mutant (mutants the suite already kills are kept only as sanity cases); "
                   "mutants marked *equivalent* must stay silent - they show that the checks do not alarm on harmless changes.\n")
        out.append("| mutant | checks | suite | result | expectation |")
        out.append("|---|---|---|---|---|")
        ok = 0
        for r in rs:
            if "status" in r:
                out.append(f"| `{r['name']}` | | | {r['status']} | |")
                continue
            good = (r["caught"] == (r["expect"] == "caught")) and not r["harness_fault"]
            ok += good
            keys = [k for d in r["detail"].values() for k in d["keys"]][:1]
            out.append(f"| `{r['name']}` | {r['checks']} | {'passes' if r['suite_passes'] else ('fails' if r['suite_passes'] is not None else '-')} | "
                       f"{'VIOLATION `' + keys[0] + '`' if r['caught'] and keys else ('VIOLATION' if r['caught'] else 'silent')} | "
                       f"{'caught' if r['expect'] == 'caught' else 'equivalent: silent'}{'' if good else ' **UNEXPECTED**'} |")
        out.append(f"\n{ok} of {len(rs)} behave as expected.\n")
    out.append(END)
    p = os.path.join(VERIF, "DESIGN.md")
    s = open(p).read()
    block = "\n".join(out)
    if BEGIN in s:
        s = s[:s.index(BEGIN)] + block + s[s.index(END) + len(END):]
    else:
        s = s.replace("## 15. How to run / file map", "## 14. Detection results\n\n" + block + "\n\n## 15. How to run / file map")
    open(p, "w").write(s)
    print("DESIGN.md section 14 regenerated")


if __name__ == "__main__":
    main()
