#!/venv/bin/python
"""Regenerate /verif/MANIFEST.json from the check modules that exist."""
import importlib
import json
import os
import sys

HERE = os.path.dirname(os.path.dirname(os.path.abspath(__file__)))
sys.path.insert(0, HERE)

ENGINE = {"E1": "dalimc/checks (finite-domain enumeration)", "E2": "dalimc/env + dalimc/core/explorer.py",
          "E3": "dalimc/aio"}


def main():
    props = [json.loads(l) for l in open(os.path.join(HERE, "properties.jsonl"))]
    checks, na = [], []
    engines = {}
    for p in props:
        pid = p["id"]
        path = os.path.join(HERE, "dalimc", "checks", pid.lower() + ".py")
        if not os.path.exists(path):
            na.append({"property_id": pid, "reason": "not claimed yet: check not built in this round (planned in DESIGN.md section 4)"})
            continue
        m = importlib.import_module("dalimc.checks." + pid.lower())
        eng = getattr(m, "ENGINE", "E1")
        engines.setdefault(eng, []).append(pid)
        checks.append({
            "property_id": pid,
            "quick_cmd": f"./check {pid} --tier quick",
            "thorough_cmd": f"./check {pid} --tier thorough",
            "evidence_file": f"evidence/{pid}.json",
            "replay_cmd_template": f"./check {pid} --replay {{path}}",
            "engine": eng,
            "level_claimed": {
                "category": m.LEVEL,
                "text": getattr(m, "LEVEL_TEXT", m.RULE),
                "design_ref": f"DESIGN.md section 4, {pid}",
            },
            "level_note": "; ".join(m.ASSUMPTIONS),
            "technique": m.TECHNIQUE,
        })
    man = {
        "version": 1,
        "setup_cmd": "./check --selftest",
        "hooks": {
            "guard": "PYTHON_DALI_VERIF",
            "enable": "no source hooks are needed: the harness owns every nondeterminism source through module-level seams (see DESIGN.md section 6); the guard name is reserved and unused",
            "baseline_off_cmd": "cd /repo && /venv/bin/python -m pytest -ra -q -p no:cacheprovider --timeout=900 --continue-on-collection-errors",
            "source_commits": [],
            "add_only": True,
        },
        "engines": [
            {"name": k, "path": ENGINE[k], "serves_properties": v,
             "kind_free_text": {"E1": "exhaustive finite-domain enumeration / explicit-state closure of pure codecs against reference models",
                                "E2": "stateless replay exploration of generator sequences closed with spec models of bus units; data choices enumerated fully, faults deviation-bounded",
                                "E3": "controlled-scheduler exploration of the real asyncio drivers on a virtual event loop against gateway models; iterative deviation bounding"}[k]}
            for k, v in sorted(engines.items())],
        "checks": checks,
        "not_applicable": na,
        "notes": "All checks drive the real code in /repo's working tree (VERIF_REPO overrides for scratch copies). exit 0 = held; exit 1 + VIOLATION line; exit 2 = harness fault (never used to hide a violation). known_findings.json lists genuine defects (fixed / open).",
    }
    with open(os.path.join(HERE, "MANIFEST.json"), "w") as f:
        json.dump(man, f, indent=1)
        f.write("\n")
    print(f"MANIFEST: {len(checks)} checks, {len(na)} not claimed")


if __name__ == "__main__":
    main()
