#!/usr/bin/env python3
"""Run the own-mutant catalogue (mutants/catalog.py) and the .diff mutants against the checks.

  tools/run_mutants.py [--only substring] [--jobs 4] [--no-tests] [--tier quick]

For each mutant: scratch copy of /repo under $VERIF_SCRATCH (default /var/tmp), apply the
replacement, (1) run the pinned suite - mutants the suite kills are marked `suite-kills`, (2)
run the named checks with VERIF_REPO pointing at the copy, delete the copy.  Writes
mutants/results.json and prints a table.  Never touches /repo or /verif/evidence.
"""
import argparse
import concurrent.futures as cf
import glob
import json
import os
import shutil
import subprocess
import sys
import tempfile

VERIF = os.path.dirname(os.path.dirname(os.path.abspath(__file__)))
sys.path.insert(0, os.path.join(VERIF, "mutants"))


def load():
    import catalog
    out = list(catalog.M)
    for f in sorted(glob.glob(os.path.join(VERIF, "mutants", "*.diff"))):
        name = os.path.basename(f)[:-5]
        out.append(dict(name=name, checks=name.split("_")[0].upper(), diff=f, expect="caught"))
    return out


def run_one(mu, tests, tier, jobs):
    scratch = tempfile.mkdtemp(prefix="mut-", dir=os.environ.get("VERIF_SCRATCH", "/var/tmp"))
    try:
        dst = os.path.join(scratch, "repo")
        shutil.copytree("/repo", dst, ignore=shutil.ignore_patterns(".git", "__pycache__", "*.pyc", ".pytest_cache"))
        if "diff" in mu:
            if subprocess.run(["patch", "-p1", "-s", "-i", mu["diff"]], cwd=dst).returncode:
                return dict(mu, status="PATCH-FAILED")
        else:
            p = os.path.join(dst, mu["file"])
            s = open(p).read()
            if s.count(mu["old"]) != mu.get("count", 1):
                return dict(name=mu["name"], status=f"STALE (old text occurs {s.count(mu['old'])}x)")
            open(p, "w").write(s.replace(mu["old"], mu["new"]))
        suite = None
        if tests:
            t = subprocess.run(["/venv/bin/python", "-m", "pytest", "-q", "-x", "-p", "no:cacheprovider", "dali/tests"],
                               cwd=dst, capture_output=True, text=True, env=dict(os.environ, PYTHONDONTWRITEBYTECODE="1"))
            suite = t.returncode == 0
        res = {}
        for cid in mu["checks"].split(","):
            c = subprocess.run([os.path.join(VERIF, "check"), cid, "--tier", tier, "--jobs", str(jobs)], cwd=VERIF, capture_output=True, text=True,
                               env=dict(os.environ, VERIF_REPO=dst, VERIF_EVIDENCE_DIR=scratch))
            keys = [l.strip().split("]")[0][1:] for l in c.stdout.splitlines() if l.startswith("  [")]
            res[cid] = dict(rc=c.returncode, keys=keys[:4])
        caught = any(r["rc"] == 1 for r in res.values())
        broken = any(r["rc"] not in (0, 1) for r in res.values())
        return dict(name=mu["name"], checks=mu["checks"], expect=mu.get("expect", "caught"), suite_passes=suite,
                    caught=caught, harness_fault=broken, detail=res)
    finally:
        shutil.rmtree(scratch, ignore_errors=True)


def main():
    ap = argparse.ArgumentParser()
    ap.add_argument("--only", default="")
    ap.add_argument("--jobs", type=int, default=4)
    ap.add_argument("--no-tests", action="store_true")
    ap.add_argument("--tier", default="quick")
    a = ap.parse_args()
    mus = [m for m in load() if a.only in m["name"]]
    per = max(2, 16 // a.jobs)
    results = []
    with cf.ThreadPoolExecutor(a.jobs) as ex:
        for r in ex.map(lambda m: run_one(m, not a.no_tests, a.tier, per), mus):
            results.append(r)
            if "status" in r:
                print(f"{r['name']:48s} {r['status']}")
                continue
            verdict = "ok" if (r["caught"] == (r["expect"] == "caught")) and not r["harness_fault"] else "** UNEXPECTED **"
            print(f"{r['name']:48s} suite={'pass' if r['suite_passes'] else ('FAIL' if r['suite_passes'] is not None else '-'):4s} "
                  f"{'CAUGHT' if r['caught'] else 'silent':6s} expect={r['expect']:6s} {verdict} "
                  f"{[k for d in r['detail'].values() for k in d['keys']][:2]}", flush=True)
    out = os.path.join(VERIF, "mutants", "results.json")
    old = {}
    if a.only and os.path.exists(out):
        old = {r["name"]: r for r in json.load(open(out))}
    for r in results:
        old[r["name"]] = r
    json.dump(list(old.values()) if a.only else results, open(out, "w"), indent=1)
    bad = [r for r in results if "status" in r or r["harness_fault"] or (r["caught"] != (r["expect"] == "caught"))]
    print(f"{len(results)} mutants, {len(bad)} unexpected")
    return 1 if bad else 0


if __name__ == "__main__":
    sys.exit(main())
