#!/usr/bin/env python3
"""Write the task files for the next wave of independently written property-breaking changes.

  tools/gen_seed_prompts.py <wave-number> <previous-wave-prompt-dir>

Takes the previous wave's prompt of each property (property text + list of earlier changes, nothing from /verif),
appends the changes imported since (file, first hunk context and 'needs to manifest' from seeded/<id>/meta.json) and
re-targets it to the worktree /tmp/wt<wave>-Cxx.  The agents never see /verif.
"""
import glob
import json
import os
import re
import sys

VERIF = os.path.dirname(os.path.dirname(os.path.abspath(__file__)))
wave, prevdir = int(sys.argv[1]), sys.argv[2]
prev = wave - 1
EXTRA = ("The checker also runs its cases in an interpreter started with -O, with address objects that are instances of user "
         "subclasses, with plain-integer addresses, with a second sequence of the same kind alive on another bus at every switch point, "
         "with strings / tuples built at run time instead of literals, with streams of several hundred bytes, with counters and "
         "sequence numbers at their wrap-around, with other masters' traffic on the bus, with device nodes that re-enumerate under "
         "another name, and with user-declared memory values and enums. It further re-runs its cases with logging enabled down to TRACE, "
         "reads every public attribute of result objects, re-uses one frame / bank / map object across many operations (including declaring "
         "further values between reads), derives vendor subclasses from the library's value classes, makes the gateway vanish at every "
         "individual write, and feeds frames that answer nobody ahead of a reply. It also runs with sys.byteorder faked to the other byte "
         "order, makes every public call the first call of a fresh process, passes IntEnum members as integer parameters, varies the data "
         "byte of collision (framing-error) frames, edits the dict a mapper exposes, registers self-unregistering observers, and models gear "
         "that obeys a device-type command only directly after its ENABLE DEVICE TYPE. ")
for n in range(1, 21):
    pid = f"C{n:02d}"
    src = open(os.path.join(prevdir, f"agent{prev}-{pid}.txt")).read()
    src = src.replace(f"wt{prev}-{pid}", f"wt{wave}-{pid}")
    have = len(re.findall(r"^  \* ", src, flags=re.M))
    new = []
    for d in sorted(glob.glob(os.path.join(VERIF, "seeded", pid + "*"))):
        meta = json.load(open(os.path.join(d, "meta.json")))
        diff = open(os.path.join(d, "patch.diff")).read()
        f = re.search(r"^\+\+\+ b/(\S+)", diff, flags=re.M)
        ctx = re.search(r"^@@ [^@]+@@ ?(.*)$", diff, flags=re.M)
        new.append(f"  * {f.group(1) if f else '?'} ({(ctx.group(1) if ctx else '').strip()[:70]}) - manifests with: {meta.get('needs_to_manifest', '')}")
    lines = src.split("\n")
    first = next(i for i, l in enumerate(lines) if l.startswith("  * "))
    last = max(i for i, l in enumerate(lines) if l.startswith("  * "))
    lines[first:last + 1] = new
    src = "\n".join(lines)
    src = re.sub(r"^\d+ OTHER ENGINEERS", f"{len(new)} OTHER ENGINEERS", src, flags=re.M)
    if EXTRA not in src:
        src = src.replace("Think hard about what such a checker is STILL least likely to exercise", EXTRA + "Think hard about what such a checker is STILL least likely to exercise")
    out = f"/tmp/agent{wave}-{pid}.txt"
    open(out, "w").write(src)
    print(out, have, "->", len(new))
