#!/usr/bin/env python3
"""Regenerate the "as built" table of DESIGN.md (section 11) from the check modules and the evidence files."""
import importlib
import json
import os
import re
import sys

VERIF = os.path.dirname(os.path.dirname(os.path.abspath(__file__)))
sys.path.insert(0, VERIF)


def main():
    rows = ["| id | engine / level | bounds completed (quick tier) | executions / evaluations | states | transitions | wall |", "|---|---|---|---|---|---|---|"]
    for i in range(1, 21):
        cid = f"C{i:02d}"
        m = importlib.import_module(f"dalimc.checks.{cid.lower()}")
        ev = json.load(open(os.path.join(VERIF, "evidence", f"{cid}.json")))
        c = ev["coverage"]
        rows.append(f"| {cid} | {getattr(m, "ENGINE", "E1")} / {m.LEVEL} | {getattr(m, "BOUNDS", {}).get("quick", m.RULE[:160])} | {c['evaluations']:,} | {c['states']:,} | {c['transitions']:,} | {ev['wall_s']:.0f} s |")
    text = "\n".join(rows)
    p = os.path.join(VERIF, "DESIGN.md")
    s = open(p).read()
    s2 = re.sub(r"<!-- ASBUILT:BEGIN -->.*?<!-- ASBUILT:END -->", "<!-- ASBUILT:BEGIN -->\n" + text + "\n<!-- ASBUILT:END -->", s, flags=re.S)
    if s2 == s and "ASBUILT:BEGIN" not in s:
        print("markers missing")
        return 1
    open(p, "w").write(s2)
    print("DESIGN.md section 11 table regenerated")


if __name__ == "__main__":
    sys.exit(main())
