#!/usr/bin/env python3
"""Per-shard vacuity audit: run every shard of a check (fresh process each) and list shards that made <= 1 distinct
observation or no evaluation at all - candidates for scenarios that never happen (see DESIGN 13, C20)."""
import multiprocessing as mp
import os
import sys

VERIF = os.path.dirname(os.path.dirname(os.path.abspath(__file__)))
sys.path.insert(0, VERIF)


def work(args):
    cid, shard = args
    from dalimc.core import repo, runner
    import logging
    logging.disable(logging.CRITICAL)
    repo.setup()
    runner._CHECK = runner.load_check(cid)
    r = runner._worker_run(shard)
    if "harness_error" in r:
        return (repr(shard)[:150], -1, -1, r["harness_error"][-200:])
    return (repr(shard)[:150], r["evaluations"], len(r["distinct"]), dict(r["observations"]))


def main():
    cid, tier = sys.argv[1], (sys.argv[2] if len(sys.argv) > 2 else "quick")
    from dalimc.core import repo, runner
    repo.setup()
    chk = runner.load_check(cid)
    shards = list(chk.shards(tier))
    ctx = mp.get_context("fork")
    with ctx.Pool(int(os.environ.get("JOBS", "8")), maxtasksperchild=1) as pool:
        out = pool.map(work, [(cid, s) for s in shards], chunksize=1)
    sus = [o for o in out if o[1] <= 0 or o[2] <= 1]
    print(f"{cid} {tier}: {len(shards)} shards, {len(sus)} with <= 1 distinct observation")
    for o in sus:
        print("  ", o)


if __name__ == "__main__":
    main()
