#!/usr/bin/env python3
"""Import an independently written property-breaking change from a scratch worktree.

  tools/seed_import.py <worktree> <seed-id> <property> [--checks C07,C08] [--needs "..."]

Confirms, in the worktree: demo.py exits 1 with the change and 0 without it (git stash), the
pinned suite passes with the change; then stores patch.diff + demo.py + meta.json under
/verif/seeded/<seed-id>/ and runs the named checks against a scratch copy with the patch.
"""
import argparse
import json
import os
import shutil
import subprocess
import sys

VERIF = os.path.dirname(os.path.dirname(os.path.abspath(__file__)))


def sh(cmd, cwd=None, timeout=3000):
    p = subprocess.run(cmd, shell=True, cwd=cwd, capture_output=True, text=True, timeout=timeout)
    return p.returncode, (p.stdout + p.stderr)


def main():
    ap = argparse.ArgumentParser()
    ap.add_argument("worktree")
    ap.add_argument("seed")
    ap.add_argument("property")
    ap.add_argument("--checks", default=None)
    ap.add_argument("--needs", default="")
    ap.add_argument("--tier", default="quick")
    a = ap.parse_args()
    wt = a.worktree
    d = os.path.join(VERIF, "seeded", a.seed)
    os.makedirs(d, exist_ok=True)
    if wt != "-":                       # "-" = re-verify the patch already stored under seeded/
        rc, diff = sh("git diff", wt)
        if not diff.strip():
            print("no diff in", wt)
            return 2
        if "dali/tests" in diff:
            print("WARNING: patch touches tests")
        open(os.path.join(d, "patch.diff"), "w").write(diff)
        shutil.copy(os.path.join(wt, "demo.py"), os.path.join(d, "demo.py"))
    if not a.needs and os.path.exists(os.path.join(d, "meta.json")):
        a.needs = json.load(open(os.path.join(d, "meta.json"))).get("needs_to_manifest", "")
    ran = []
    # confirm in a FRESH scratch copy of /repo (git stash is shared between worktrees - never use it)
    import tempfile
    scratch = tempfile.mkdtemp(prefix="seed-", dir=os.environ.get("VERIF_SCRATCH", "/var/tmp"))
    try:
        dst = os.path.join(scratch, "repo")
        shutil.copytree("/repo", dst, ignore=shutil.ignore_patterns(".git", "__pycache__", "*.pyc", ".pytest_cache"))
        shutil.copy(os.path.join(d, "demo.py"), os.path.join(dst, "demo.py"))
        rc_without, out_without = sh("/venv/bin/python demo.py", dst)
        ran.append(f"demo.py on an unchanged copy of /repo: exit {rc_without}")
        rc_p, out_p = sh(f"patch -p1 -s -i {os.path.join(d, 'patch.diff')}", dst)
        if rc_p:
            print("PATCH FAILED - the stored patch no longer applies to /repo; rebase it first\n", out_p)
            return 3
        rc_with, out_with = sh("/venv/bin/python demo.py", dst)
        ran.append(f"demo.py on the copy with patch.diff applied: exit {rc_with}")
        rc_t, out_t = sh("/venv/bin/python -m pytest -q -p no:cacheprovider dali/tests", dst)
        tail = out_t.strip().splitlines()[-1] if out_t.strip() else ""
        ran.append(f"pinned suite on the patched copy: {tail}")
    finally:
        shutil.rmtree(scratch, ignore_errors=True)
    confirmed = rc_with == 1 and rc_without == 0 and rc_t == 0 and "110 passed" in tail
    checks = (a.checks or a.property).split(",")
    results = {}
    for c in checks:
        rc_c, out_c = sh(f"python3 tools/run_mutant.py --patch seeded/{a.seed}/patch.diff --checks {c} --tier {a.tier}", VERIF)
        keys = [l.strip()[:200] for l in out_c.splitlines() if l.strip().startswith("[")]
        results[c] = {"caught": "CAUGHT" in out_c, "keys": keys[:3]}
        ran.append(f"./check {c} --tier {a.tier} against the patched copy: {'VIOLATION' if results[c]['caught'] else 'silent'}")
    meta = {
        "seed": a.seed, "property": a.property, "source": "independent sub-agent given only the property text and a scratch worktree",
        "needs_to_manifest": a.needs, "confirmed": confirmed, "what_i_ran": ran,
        "demo_output_with_change": out_with.strip().splitlines()[:6],
        "detected_by": {c: r["caught"] for c, r in results.items()}, "violation_keys": {c: r["keys"] for c, r in results.items()},
    }
    json.dump(meta, open(os.path.join(d, "meta.json"), "w"), indent=1)
    print(json.dumps({k: meta[k] for k in ("seed", "confirmed", "detected_by")}, indent=None))
    for r in ran:
        print("  ", r)
    return 0


if __name__ == "__main__":
    sys.exit(main())
