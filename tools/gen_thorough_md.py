#!/usr/bin/env python3
"""Regenerate the thorough-tier table of DESIGN.md (section 11) from the log of a background run of all thorough tiers.

  tools/gen_thorough_md.py /root/.vp/runs/<n>/log <commit>
"""
import importlib
import os
import re
import sys

VERIF = os.path.dirname(os.path.dirname(os.path.abspath(__file__)))
sys.path.insert(0, VERIF)


def main():
    log, commit = sys.argv[1], sys.argv[2]
    rows = ["| id | bounds completed (thorough tier) | executions / evaluations | states | transitions | wall | result |", "|---|---|---|---|---|---|---|"]
    pat = re.compile(r"^(C\d\d) tier=thorough evaluations=(\d+) states=(\d+) transitions=(\d+) distinct=(\d+) shards=(\d+) jobs=(\d+) caps=(\d+) wall=([\d.]+)s violations=(\d+) known=(\d+)")
    seen = {}
    for line in open(log):
        m = pat.match(line)
        if m:
            seen[m.group(1)] = m
    for i in range(1, 21):
        cid = f"C{i:02d}"
        m = seen.get(cid)
        mod = importlib.import_module(f"dalimc.checks.{cid.lower()}")
        b = getattr(mod, "BOUNDS", {}).get("thorough", "")
        if not m:
            rows.append(f"| {cid} | {b} | (not in this run) | | | | |")
            continue
        res = "pass" if m.group(10) == "0" else f"{m.group(10)} VIOLATIONS"
        if m.group(11) != "0":
            res += f", {m.group(11)} known finding(s)"
        if m.group(8) != "0":
            res += f", {m.group(8)} caps hit"
        rows.append(f"| {cid} | {b} | {int(m.group(2)):,} | {int(m.group(3)):,} | {int(m.group(4)):,} | {float(m.group(9)):.0f} s | {res} |")
    text = (f"Thorough tiers, all run in the background (`vp run`, 16 cores, other work going on at the same time) at /verif commit `{commit}`:\n\n"
            + "\n".join(rows))
    p = os.path.join(VERIF, "DESIGN.md")
    s = open(p).read()
    if "THOROUGH:BEGIN" not in s:
        s = s.replace("<!-- ASBUILT:END -->", "<!-- ASBUILT:END -->\n\n<!-- THOROUGH:BEGIN -->\n<!-- THOROUGH:END -->", 1)
    s = re.sub(r"<!-- THOROUGH:BEGIN -->.*?<!-- THOROUGH:END -->", lambda _m: "<!-- THOROUGH:BEGIN -->\n" + text + "\n<!-- THOROUGH:END -->", s, flags=re.S)
    open(p, "w").write(s)
    print("thorough table regenerated")


if __name__ == "__main__":
    main()
