#!/usr/bin/env python3
"""Re-verify every stored seeded change against the CURRENT /repo and the CURRENT checks.

  tools/reverify_seeds.py [--jobs 4] [seed-id ...]

For each seeded/<id>/: demo.py exits 0 on /repo and 1 with patch.diff, the pinned suite passes with the patch, and
the checks recorded in meta.json (detected_by) are run against a scratch copy with the patch.  meta.json is rewritten.
"""
import json
import os
import subprocess
import sys
from concurrent.futures import ThreadPoolExecutor

VERIF = os.path.dirname(os.path.dirname(os.path.abspath(__file__)))


def one(seed):
    meta = json.load(open(os.path.join(VERIF, "seeded", seed, "meta.json")))
    checks = ",".join(meta.get("detected_by", {meta["property"]: True}).keys())
    p = subprocess.run([sys.executable, os.path.join(VERIF, "tools", "seed_import.py"), "-", seed, meta["property"], "--checks", checks],
                       cwd=VERIF, capture_output=True, text=True)
    new = json.load(open(os.path.join(VERIF, "seeded", seed, "meta.json")))
    ok = p.returncode == 0 and new.get("confirmed") and any(new["detected_by"].values())
    return seed, ok, p.returncode, new.get("detected_by"), (p.stdout + p.stderr)[-400:] if not ok else ""


def main():
    args = sys.argv[1:]
    jobs = 4
    if args[:1] == ["--jobs"]:
        jobs = int(args[1])
        args = args[2:]
    seeds = args or sorted(d for d in os.listdir(os.path.join(VERIF, "seeded")) if os.path.exists(os.path.join(VERIF, "seeded", d, "meta.json")))
    bad = 0
    with ThreadPoolExecutor(jobs) as ex:
        for seed, ok, rc, det, tail in ex.map(one, seeds):
            print(f"{seed:45s} {'ok' if ok else 'PROBLEM'} rc={rc} detected_by={det}", flush=True)
            if not ok:
                bad += 1
                print(tail)
    print(f"{len(seeds)} seeds, {bad} problems")
    return 1 if bad else 0


if __name__ == "__main__":
    sys.exit(main())
