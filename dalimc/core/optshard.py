"""Run ONE shard of a check in THIS interpreter and hand the result back as a pickle on stdout.

Started by the runner as ``python -O -m dalimc.core.optshard <CHECK-ID>`` (shard pickled on stdin; every other
picked shard with ``-OO``, which also strips docstrings): the same oracles with assert statements compiled out of
the library - behaviour a user relies on must not hinge on an interpreter option.
"""
import pickle
import sys


def main():
    cid = sys.argv[1]
    shard = pickle.loads(sys.stdin.buffer.read())
    if __debug__:
        raise SystemExit("HARNESS: optshard must run under python -O")
    import logging
    logging.disable(logging.CRITICAL)
    from dalimc.core import repo, runner
    repo.setup()
    runner._CHECK = runner.load_check(cid)
    out = sys.stdout
    sys.stdout = sys.stderr                # anything a shard prints must not corrupt the pickle
    r = runner._worker_run(shard)
    out.buffer.write(pickle.dumps(r))
    out.buffer.flush()


if __name__ == "__main__":
    main()
