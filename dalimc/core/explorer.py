"""Stateless bounded exploration core shared by E2 (sequence/environment) and E3 (scheduler).

An execution is determined by a list of choice indices.  `run(chooser)` builds a FRESH system,
replays the prefix held by the chooser (an out-of-range choice while replaying is a hard
HarnessDivergence), then takes alternative 0 at every later point.  `explore` enumerates all
executions whose total cost (sum of the cost of the taken alternatives; alternative 0 is free,
data choices are declared free, faults / scheduling deviations cost 1) stays within the bound
- iterative deviation bounding in the style of CHESS.
"""


class HarnessDivergence(Exception):
    pass


class Chooser:
    __slots__ = ("prefix", "points", "labels")

    def __init__(self, prefix=()):
        self.prefix = list(prefix)
        self.points = []      # (n_alternatives, taken, cost_of_taken, costs)
        self.labels = []

    def choose(self, n, label="", costs=None):
        """Pick one of n alternatives.  costs: per-alternative cost list (default 0,1,1,...)."""
        if n <= 0:
            raise HarnessDivergence(f"empty menu at {label}")
        i = len(self.points)
        if i < len(self.prefix):
            t = self.prefix[i]
            if t >= n:
                raise HarnessDivergence(f"replay divergence at point {i} ({label}): choice {t} of {n}")
        else:
            t = 0
        if costs is None:
            c = 0 if t == 0 else 1
        else:
            c = costs[t]
        self.points.append((n, t, c, costs))
        self.labels.append(label)
        return t

    @property
    def choices(self):
        return [p[1] for p in self.points]

    @property
    def cost(self):
        return sum(p[2] for p in self.points)


def explore(run, bound, max_executions=None, root=()):
    """Yield (chooser, observation) for every execution within the cost bound.

    Returns normally when the space is exhausted; if max_executions is hit the generator
    yields a final (None, "CAP") marker so that callers can report the cap.
    """
    stack = [list(root)]
    n = 0
    while stack:
        prefix = stack.pop()
        ch = Chooser(prefix)
        obs = run(ch)
        if len(ch.points) < len(prefix):
            raise HarnessDivergence(f"execution ended after {len(ch.points)} points, prefix has {len(prefix)}")
        yield ch, obs
        n += 1
        if max_executions is not None and n >= max_executions and stack:
            yield None, "CAP"
            return
        choices = ch.choices
        cost_before = 0
        for i, (k, t, c, costs) in enumerate(ch.points):
            if i >= len(prefix):
                for alt in range(k - 1, 0, -1):
                    ac = (1 if costs is None else costs[alt])
                    if cost_before + ac <= bound:
                        stack.append(choices[:i] + [alt])
            cost_before += c
