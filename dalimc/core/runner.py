"""Check runner: shards a check over a process pool, aggregates coverage,
classifies violations against known_findings.json, writes evidence + replays.

A check module (dalimc.checks.cNN) provides:

  ID, LEVEL, RULE, ASSUMPTIONS, TECHNIQUE
  shards(tier)            -> list of picklable shard descriptors
  run_shard(shard)        -> dict from new_result(), filled in
  replay(case)            -> list of violation dicts for exactly that case
  finalize(tier, agg)     -> optional; cross-shard checks, may append violations

A violation is {"key": <stable finding key>, "message": str, "case": json-able}.
The *key* names the failing call site / input class; known findings are matched
on it, so another violation of the same property still fails the check.
"""
import hashlib
import importlib
import json
import multiprocessing as mp
import os
import random
import sys
import time
import traceback

from . import repo

VERIF = os.path.dirname(os.path.dirname(os.path.dirname(os.path.abspath(__file__))))
MAX_VIOL_PER_SHARD = 40
MAX_REPLAYED_KEYS = 8          # determinism replays (two fresh processes each) are done for the first few violation keys of a run
MAX_REPLAY_SECONDS = 120
MAX_SAMPLES = 6


def new_result():
    return {
        "evaluations": 0, "states": 0, "transitions": 0, "traces": 0,
        "distinct": set(),       # hashable outcome keys (unioned across shards)
        "distinct_count": 0,     # or: a count when shards are disjoint by construction
        "violations": [], "samples": [], "observations": {}, "caps": [],
        "extra": {},             # check-specific payload handed to finalize()
    }


def add_violation(res, key, message, case):
    if len(res["violations"]) < MAX_VIOL_PER_SHARD or not any(
            v["key"] == key for v in res["violations"]):
        res["violations"].append({"key": key, "message": message, "case": case})
    res["observations"]["violations_total"] = res["observations"].get("violations_total", 0) + 1


def observe(res, name, n=1):
    res["observations"][name] = res["observations"].get(name, 0) + n


def sample(res, s):
    if len(res["samples"]) < MAX_SAMPLES:
        res["samples"].append(s)


def load_check(cid):
    return importlib.import_module("dalimc.checks." + cid.lower())


_CHECK = None


def _worker_init(cid):
    global _CHECK
    import logging
    logging.disable(logging.CRITICAL)        # library log output is not an observation
    repo.setup()
    _CHECK = load_check(cid)


def _library_exception(shard):
    """An exception that escapes from LIBRARY code (innermost frame under the repository) through a
    path the harness did not anticipate is a misbehaving library, not a harness fault: it becomes a
    violation that names the shard, so that a changed tree can never hide behind exit 2."""
    et, ev, tb = sys.exc_info()
    frames = traceback.extract_tb(tb)
    if frames and os.path.realpath(frames[-1].filename).startswith(repo.REPO + os.sep):
        r = new_result()
        r["evaluations"] = 1
        where = f"{os.path.relpath(frames[-1].filename, repo.REPO)}:{frames[-1].name}"
        add_violation(r, f"{_CHECK.ID}:unexpected-library-exception:{et.__name__}",
                      f"{et.__name__}: {ev} raised in {where} while exploring shard {repr(shard)[:120]}",
                      {"__shard__": jsonable(shard)})
        r["distinct"] = {("exception", et.__name__), ("exception-shard", repr(shard)[:60])}
        return r
    return None


def _run_chain(shard):
    """("__chain__", (s1, s2, ...)): several shards one after the other inside ONE process - the same oracles,
    but from non-initial process states (whatever the library remembers at class / module level from the
    earlier shards).  A violation that only shows in a chain carries the whole chain as its replay case."""
    agg = new_result()
    for sub in shard[1]:
        r = _CHECK.run_shard(sub)
        for k in ("evaluations", "states", "transitions", "traces", "distinct_count"):
            agg[k] += r[k]
        agg["distinct"] |= r["distinct"]
        for v in r["violations"]:
            v["case"] = {"__shard__": jsonable(shard), "__inner__": jsonable(v["case"])}
            if len(agg["violations"]) < MAX_VIOL_PER_SHARD or not any(x["key"] == v["key"] for x in agg["violations"]):
                agg["violations"].append(v)
        for k, n in r["observations"].items():
            agg["observations"][k] = agg["observations"].get(k, 0) + n
        agg["caps"].extend(r["caps"])
    observe(agg, "shards_rerun_in_chains", len(shard[1]))
    sample(agg, {"chain_of_shards_in_one_process": len(shard[1])})
    return agg


def _run_optimised(shard):
    """("__optimised__", s[, "-OO"]): shard s in a separate interpreter started with -O (asserts compiled out) or,
    for every other picked shard, with -OO (docstrings stripped as well: every __doc__ is None)."""
    import pickle
    import subprocess
    flag = shard[2] if len(shard) > 2 else "-O"
    env = dict(os.environ, PYTHONPATH=VERIF, VERIF_REPO=repo.REPO, PYTHONHASHSEED="0", PYTHONDONTWRITEBYTECODE="1")
    p = subprocess.run([sys.executable, flag, "-m", "dalimc.core.optshard", _CHECK.ID], input=pickle.dumps(shard[1]), capture_output=True, env=env,
                       cwd=VERIF, timeout=7200)
    if p.returncode != 0 or not p.stdout:
        raise RuntimeError(f"HARNESS: optimised shard {shard[1]!r} failed: {p.stderr.decode(errors='replace')[-600:]}")
    r = pickle.loads(p.stdout)
    if "harness_error" in r:
        raise RuntimeError("HARNESS (under -O): " + r["harness_error"])
    for v in r["violations"]:
        v["case"] = {"__shard__": jsonable(shard), "__inner__": jsonable(v["case"])}
        v["message"] = f"[interpreter started with {flag}] " + v["message"]
    observe(r, "shards_rerun_under_python_O", 1)
    if flag == "-OO":
        observe(r, "shards_rerun_under_python_OO_docstrings_stripped", 1)
    return r


class _FormatSink:
    """Logging handler that renders every record (so formatting code runs) and throws the text away."""
    level = 0

    def __init__(self):
        import logging
        self._h = logging.Handler(level=1)
        self._h.emit = lambda record: record.getMessage()

    def handler(self):
        return self._h


def _run_traced(shard):
    """("__trace__", s): shard s with logging enabled down to the library's TRACE level (the runner otherwise disables
    logging): what the library logs must not change what it does."""
    import logging
    root = logging.getLogger()
    old_level, old_disable = root.level, logging.root.manager.disable
    h = _FormatSink().handler()
    logging.disable(logging.NOTSET)
    root.addHandler(h)
    root.setLevel(1)
    from dalimc.aio import engine
    engine.KEEP_LOGGING = True
    try:
        r = _CHECK.run_shard(shard[1])
    finally:
        engine.KEEP_LOGGING = False
        root.removeHandler(h)
        root.setLevel(old_level)
        logging.disable(old_disable)
    for v in r["violations"]:
        v["case"] = {"__shard__": jsonable(shard), "__inner__": jsonable(v["case"])}
        v["message"] = "[logging enabled down to TRACE] " + v["message"]
    observe(r, "shards_rerun_with_trace_logging", 1)
    return r


def _run_other_byteorder(shard):
    """("__byteorder__", s): shard s with sys.byteorder reporting the OTHER byte order (a big-endian host): DALI byte order
    is wire order and must not follow the CPU.  (Only Python-level uses of sys.byteorder are affected.)"""
    old = sys.byteorder
    sys.byteorder = "big" if old == "little" else "little"
    try:
        r = _CHECK.run_shard(shard[1])
    finally:
        sys.byteorder = old
    for v in r["violations"]:
        v["case"] = {"__shard__": jsonable(shard), "__inner__": jsonable(v["case"])}
        v["message"] = "[sys.byteorder reporting a big-endian host] " + v["message"]
    observe(r, "shards_rerun_with_other_byteorder", 1)
    return r


def byteorder_of(chk, tier):
    stride = (getattr(chk, "BYTEORDER_STRIDE", None) or {}).get(tier)
    if not stride:
        return []
    return [("__byteorder__", s) for s in list(chk.shards(tier))[(2 * stride) // 3::stride]]


def traced_of(chk, tier):
    """Checks that declare TRACE_STRIDE = {tier: k}: every k-th shard is run once more with logging enabled down to TRACE."""
    stride = (getattr(chk, "TRACE_STRIDE", None) or {}).get(tier)
    picked = list(getattr(chk, "TRACE_SHARDS", lambda t: [])(tier))        # shards a check names explicitly
    if stride:
        picked += [s for s in list(chk.shards(tier))[stride // 3::stride] if s not in picked]
    return [("__trace__", s) for s in picked]


def optimised_of(chk, tier):
    """Checks that declare OPTIMISED_STRIDE = {tier: k}: every k-th shard is run once more under python -O."""
    stride = (getattr(chk, "OPTIMISED_STRIDE", None) or {}).get(tier)
    if not stride:
        return []
    picked = list(chk.shards(tier))[stride // 2::stride]
    return [("__optimised__", s) if i % 2 else ("__optimised__", s, "-OO") for i, s in enumerate(picked)]


def chains_of(chk, tier):
    """Chains for checks that declare CHAIN_STRIDE = {tier: k}: every k-th shard forwards, the same backwards,
    and the interleaved selection rotated by half."""
    stride = (getattr(chk, "CHAIN_STRIDE", None) or {}).get(tier)
    if not stride:
        return []
    base = list(chk.shards(tier))
    sel = base[::stride]
    out = [("__chain__", tuple(sel)), ("__chain__", tuple(reversed(sel)))]
    sel2 = base[stride // 2::stride] if stride > 1 else []
    if len(sel2) > 1:
        h = len(sel2) // 2
        out.append(("__chain__", tuple(sel2[h:] + sel2[:h])))
    return out


def _worker_run(shard):
    t0 = time.time()
    try:
        if shard and shard[0] == "__chain__":
            r = _run_chain(shard)
        elif shard and shard[0] == "__optimised__":
            r = _run_optimised(shard)
        elif shard and shard[0] == "__trace__":
            r = _run_traced(shard)
        elif shard and shard[0] == "__byteorder__":
            r = _run_other_byteorder(shard)
        else:
            r = _CHECK.run_shard(shard)
    except BaseException:
        r = _library_exception(shard)
        if r is None:
            return {"harness_error": traceback.format_exc(), "shard": repr(shard)[:300]}
    r["wall"] = time.time() - t0
    # sets of large cardinality are hashed down to ints to keep IPC small
    if len(r["distinct"]) > 200000:
        r["distinct"] = {hash(x) for x in r["distinct"]}
    return r


def load_known():
    p = os.path.join(VERIF, "known_findings.json")
    if not os.path.exists(p):
        return []
    with open(p) as f:
        return json.load(f)["findings"]


def jsonable(x):
    try:
        json.dumps(x)
        return x
    except TypeError:
        if isinstance(x, dict):
            return {str(k): jsonable(v) for k, v in x.items()}
        if isinstance(x, (list, tuple, set, frozenset)):
            return [jsonable(v) for v in x]
        if isinstance(x, bytes):
            return {"__bytes__": x.hex()}
        return repr(x)


def run_check(cid, tier, jobs=None):
    cid = cid.upper()
    seed = int(os.environ.get("VERIF_SEED", "0") or 0)
    t0 = time.time()
    import logging
    logging.disable(logging.CRITICAL)
    repo.setup()
    chk = load_check(cid)
    shards = list(chk.shards(tier)) + chains_of(chk, tier) + optimised_of(chk, tier) + traced_of(chk, tier) + byteorder_of(chk, tier)
    shard_families = {}
    for s_ in shards:
        fam = str(s_[0]) if isinstance(s_, (tuple, list)) and s_ else str(s_).split(":")[0][:24]
        if fam.startswith("__") and fam != "__chain__" and isinstance(s_, (tuple, list)) and len(s_) > 1 and isinstance(s_[1], (tuple, list)) and s_[1]:
            fam = f"{fam}{s_[1][0]}"
        shard_families[fam] = shard_families.get(fam, 0) + 1
    random.Random(seed).shuffle(shards)
    shards.sort(key=lambda x: 0 if x and x[0] == "__chain__" else 1)      # the long tasks first
    jobs = jobs or int(os.environ.get("VERIF_JOBS", "0") or 0) or min(16, os.cpu_count() or 1)
    jobs = max(1, min(jobs, len(shards)))
    agg = new_result()
    agg["shards"] = len(shards)
    results = []
    if jobs == 1:
        global _CHECK
        _CHECK = chk
        for s in shards:
            results.append(_worker_run(s))
    else:
        ctx = mp.get_context("fork")
        # one fresh forked process per shard: library state touched by one shard (class-level caches,
        # registries) can never leak into another, so every violation is reproducible from its case alone
        with ctx.Pool(jobs, initializer=_worker_init, initargs=(cid,), maxtasksperchild=1) as pool:
            for r in pool.imap_unordered(_worker_run, shards, chunksize=1):
                results.append(r)
    extras = []
    for r in results:
        if "harness_error" in r:
            print("HARNESS-ERROR in shard", r["shard"])
            print(r["harness_error"])
            return 2
        for k in ("evaluations", "states", "transitions", "traces", "distinct_count"):
            agg[k] += r[k]
        agg["distinct"] |= r["distinct"]
        agg["violations"].extend(r["violations"])
        for s in r["samples"]:
            sample(agg, s)
        for k, v in r["observations"].items():
            agg["observations"][k] = agg["observations"].get(k, 0) + v
        agg["caps"].extend(r["caps"])
        extras.append(r["extra"])
    agg["extras"] = extras
    if hasattr(chk, "finalize"):
        chk.finalize(tier, agg)
    # per-check vacuity guard: named counters that must be non-zero for the exploration to mean anything
    missing = [n for n in getattr(chk, "SANITY", ()) if not agg["observations"].get(n)]

    # ---- classify violations -------------------------------------------------
    known = [k for k in load_known() if k.get("property") == cid and k.get("status") == "open"]
    bykey = {}
    for v in agg["violations"]:
        bykey.setdefault(v["key"], []).append(v)
    unknown, known_hit = [], []
    for key in sorted(bykey):
        kf = next((k for k in known if k["key"] == key), None)
        if kf:
            known_hit.append((kf, bykey[key]))
        else:
            unknown.append((key, bykey[key]))

    # ---- determinism: every reported violation must replay identically --------
    rc = 0
    lines = []
    outdir = os.environ.get("VERIF_EVIDENCE_DIR") or VERIF   # scratch runs (mutants) must not touch /verif/evidence
    os.makedirs(os.path.join(outdir, "replays"), exist_ok=True)
    replayed, t_replay0 = 0, time.time()
    for key, vs in unknown:
        v = min(vs, key=lambda v: len(json.dumps(jsonable(v["case"]))))
        case = jsonable(v["case"])
        # every violation is replayed twice in a fresh process.  A violation that was observed is ALWAYS reported
        # (exit 1 + VIOLATION line); a replay that raises or does not reproduce is recorded in the replay file and
        # flagged, it never turns a detection into a harness error.
        replay_status = "reproduced-twice"
        replayed += 1
        if replayed > MAX_REPLAYED_KEYS or time.time() - t_replay0 > MAX_REPLAY_SECONDS:
            replay_status = "not-replayed (only the first violations of a run are replayed automatically; use --replay)"
        for _ in range(2 if replay_status == "reproduced-twice" else 0):
            try:
                again = _replay_isolated(cid, json.loads(json.dumps(case)))
            except BaseException:
                print("NOTE: replay of the stored case raised\n" + traceback.format_exc(limit=3))
                replay_status = "replay-raised"
                break
            if not any(a["key"] == key for a in again):
                replay_status = "not-reproduced-in-isolation"
        if replay_status not in ("reproduced-twice",) and not replay_status.startswith("not-replayed"):
            print(f"NOTE: violation {key}: {replay_status} (it was observed in the exploration run and is reported regardless)")
        h = hashlib.sha1(json.dumps([key, case], sort_keys=True).encode()).hexdigest()[:10]
        path = os.path.join(outdir, "replays", f"{cid}-{h}.json")
        with open(path, "w") as f:
            json.dump({"property": cid, "key": key, "tier": tier, "case": case,
                       "message": v["message"], "count": len(vs), "replay_status": replay_status}, f, indent=1)
        lines.append(f"VIOLATION property={cid} replay={path}")
        print(f"  [{key}] x{len(vs)}: {v['message']}")
        rc = 1
    for kf, vs in known_hit:
        print(f"KNOWN-FINDING: property={cid} {kf['key']}: {kf['what']} (x{len(vs)} in this run)")
    # stale known finding (listed but not reproduced) is reported, not fatal
    for k in known:
        if k["key"] not in bykey and tier in k.get("tiers", ["quick", "thorough"]):
            print(f"NOTE: known finding {k['key']} did not occur in this run")

    # ---- evidence --------------------------------------------------------------
    distinct = len(agg["distinct"]) + agg["distinct_count"]
    wall = time.time() - t0
    cov = {
        "evaluations": agg["evaluations"],
        "distinct_nontrivial": distinct,
        "rule": chk.RULE,
        "samples": jsonable(agg["samples"]) or ["(none)"],
        "states": max(agg["states"], 0),
        "transitions": max(agg["transitions"], 0),
        "traces_validated_against_impl": agg["traces"],
        "exhaustive": not agg["caps"],
        "caps_hit": agg["caps"][:20],
        "shards": agg["shards"],
        "jobs": jobs,
        "observations": agg["observations"],
        "known_findings_hit": [kf["key"] for kf, _ in known_hit],
        "bounds": getattr(chk, "BOUNDS", {}).get(tier, ""),
        # every shard of this run by family (first element of the shard tuple; "__x__" = a runner-level re-run of another
        # shard: in one process with others, under python -O, with TRACE logging, with the other byte order) - DESIGN.md 11 / 13.1
        "shard_families": shard_families,
    }
    if hasattr(chk, "coverage_extra"):
        cov.update(chk.coverage_extra(tier, agg))
    ev = {
        "property_id": cid, "tier": tier, "seed": seed, "level": chk.LEVEL,
        "coverage": cov, "assumptions": list(chk.ASSUMPTIONS), "wall_s": round(wall, 2),
        "violations": len(unknown),
    }
    os.makedirs(os.path.join(outdir, "evidence"), exist_ok=True)
    with open(os.path.join(outdir, "evidence", f"{cid}.json"), "w") as f:
        json.dump(ev, f, indent=1, sort_keys=True)
        f.write("\n")
    # vacuity self-check (only when nothing was found - a violation is never hidden behind exit 2):
    # many executions with < 2 distinct outcomes, or a named coverage counter that stayed at zero
    if rc == 0 and (distinct < 2 or agg["evaluations"] < 1):
        print(f"HARNESS-VACUOUS: {cid} evaluations={agg['evaluations']} distinct={distinct}")
        return 2
    if rc == 0 and missing:
        print(f"HARNESS-VACUOUS: {cid} counters never incremented: {missing}")
        return 2
    print(f"{cid} tier={tier} evaluations={agg['evaluations']} states={agg['states']} "
          f"transitions={agg['transitions']} distinct={distinct} shards={agg['shards']} "
          f"jobs={jobs} caps={len(agg['caps'])} wall={wall:.1f}s violations={len(unknown)} "
          f"known={len(known_hit)}")
    for ln in lines:
        print(ln)
    return rc


def _tuplify(x):
    return tuple(_tuplify(i) for i in x) if isinstance(x, list) else x


def _replay_case(chk, case):
    global _CHECK
    if isinstance(case, dict) and "__shard__" in case:
        _CHECK = chk
        r = _worker_run(_tuplify(case["__shard__"]))
        return r.get("violations", []) if "harness_error" not in r else []
    return chk.replay(case)


def _replay_worker(args):
    cid, case = args
    import io
    import contextlib
    buf = io.StringIO()
    with contextlib.redirect_stdout(buf):
        vs = _replay_case(load_check(cid), case)
    return [{"key": v["key"], "message": v["message"]} for v in vs]


def _replay_isolated(cid, case):
    """Replay in a fresh forked process: replays must not see library state left behind by
    other replays (or by in-process shards)."""
    ctx = mp.get_context("fork")
    with ctx.Pool(1, initializer=_worker_init, initargs=(cid,), maxtasksperchild=1) as pool:
        return pool.apply(_replay_worker, ((cid, case),))


def run_replay(cid, path):
    repo.setup()
    chk = load_check(cid.upper())
    with open(path) as f:
        rec = json.load(f)
    print(f"replaying {rec['property']} [{rec['key']}]: {rec['message']}")
    os.environ["VERIF_TRACE"] = "1"
    vs = _replay_case(chk, rec["case"])
    for v in vs:
        print(f"  reproduced [{v['key']}]: {v['message']}")
    if any(v["key"] == rec["key"] for v in vs):
        print(f"VIOLATION property={rec['property']} replay={path}")
        return 1
    print("not reproduced on this tree")
    return 0
