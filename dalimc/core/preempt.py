"""One-preemption exploration of two THREADS calling into the library (iterative context bounding, bound 1).

Thread A starts `run_a()`; it is suspended after its k-th traced line inside the library (k = 0, 1, 2 ... until A finishes
earlier), thread B then runs `run_b()` to completion, A is resumed.  Every k is explored in a FRESH forked child, so that
"first use" state of the library (lazily built tables, caches) is first use every time.  Scheduling points are source
lines of files under the library directory; B is never preempted (bound 1).
"""
import os
import pickle
import sys
import threading


def _experiment(run_a, run_b, k, lib_prefix, b_may_block=0.0):
    hit, go = threading.Event(), threading.Event()
    count = [0]
    out = {}

    def tracer(frame, event, arg):
        if event == "line" and frame.f_code.co_filename.startswith(lib_prefix):
            count[0] += 1
            if count[0] == k + 1:
                hit.set()
                go.wait(20)
        return tracer

    def a_body():
        sys.settrace(tracer)
        try:
            out["a"] = ("v", run_a())
        except BaseException as e:
            out["a"] = ("x", type(e).__name__, str(e)[:80])
        finally:
            sys.settrace(None)
            hit.set()
    t = threading.Thread(target=a_body)
    t.start()
    hit.wait(20)
    preempted = t.is_alive() and count[0] >= k + 1
    blocked = False
    if preempted:
        def b_body():
            try:
                out["b"] = ("v", run_b())
            except BaseException as e:
                out["b"] = ("x", type(e).__name__, str(e)[:80])
        if b_may_block:
            # B may legitimately have to wait for a lock that the suspended A holds: give it a moment, then let A go on
            tb = threading.Thread(target=b_body)
            tb.start()
            tb.join(b_may_block)
            blocked = tb.is_alive()
            go.set()
            t.join(20)
            tb.join(20)
        else:
            b_body()
    go.set()
    t.join(20)
    return {"k": k, "preempted": preempted, "a": out.get("a"), "b": out.get("b"), "lines": count[0], "b_blocked": blocked}


def _in_fork(fn):
    r, w = os.pipe()
    pid = os.fork()
    if pid == 0:
        code = 0
        try:
            os.close(r)
            data = pickle.dumps(fn())
            with os.fdopen(w, "wb") as f:
                f.write(data)
        except BaseException:
            code = 1
        finally:
            os._exit(code)
    os.close(w)
    with os.fdopen(r, "rb") as f:
        data = f.read()
    os.waitpid(pid, 0)
    return pickle.loads(data) if data else None


def one_preemption(run_a, run_b, lib_prefix, max_points=600, b_may_block=0.0):
    """Yields one result dict per preemption point until A finishes before being preempted."""
    for k in range(max_points):
        r = _in_fork(lambda: _experiment(run_a, run_b, k, lib_prefix, b_may_block))
        if r is None:
            yield {"k": k, "preempted": False, "a": ("x", "child-died", ""), "b": None, "lines": -1}
            return
        yield r
        if not r["preempted"]:
            return
