"""setup_cmd: offline self-test of the framework (no build step is needed - pure Python)."""
import json
import os
import subprocess
import sys

from . import repo, runner


def main():
    repo.setup()
    import dali
    print("repo:", repo.REPO, "dali from", dali.__file__)
    from dali import command
    print("commands registered:", len(command.Command._commands))
    # every check module imports
    n = 0
    for fn in sorted(os.listdir(os.path.join(runner.VERIF, "dalimc", "checks"))):
        if fn.startswith("c") and fn.endswith(".py"):
            m = runner.load_check(fn[:-3])
            assert m.ID.lower() == fn[:-3]
            list(m.shards("quick"))
            n += 1
    print("check modules:", n)
    # manifest + known findings are well-formed
    man = json.load(open(os.path.join(runner.VERIF, "MANIFEST.json")))
    assert man["version"] == 1
    runner.load_known()
    # schema validation of MANIFEST with the tooling venv when available
    vt = "/opt/veriftools/pyvenv/bin/python"
    if os.path.exists(vt) and os.path.exists("/root/.vp/MANIFEST.schema.json"):
        code = ("import json,jsonschema,sys;"
                "jsonschema.validate(json.load(open(sys.argv[1])),json.load(open(sys.argv[2])));print('manifest schema ok')")
        subprocess.run([vt, "-c", code, os.path.join(runner.VERIF, "MANIFEST.json"),
                        "/root/.vp/MANIFEST.schema.json"], check=True)
    # virtual event loop determinism smoke test (E3), if built
    try:
        from dalimc.aio import selftest as aio_selftest
    except ImportError:
        aio_selftest = None
    if aio_selftest:
        aio_selftest.main()
    print("selftest ok")
    return 0
