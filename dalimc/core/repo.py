"""Locate and import the python-dali tree under test.

Checks always import from the *working tree* of the repository (default /repo,
override with VERIF_REPO for scratch copies holding a deliberately broken
variant).  Third-party modules that the sync/legacy drivers import but which are
not installed in the sandbox (``usb``, ``hid``, ``pymodbus.client.sync``) are
replaced by inert stubs *before* anything from ``dali.driver`` is imported; the
stubs carry no behaviour the checks rely on - gateway behaviour always comes from
the models in dalimc.env.
"""
import os
import sys
import types

REPO = os.path.realpath(os.environ.get("VERIF_REPO", "/repo"))
_done = False


def _stub(name, **attrs):
    m = types.ModuleType(name)
    m.__dict__.update(attrs)
    sys.modules[name] = m
    return m


def install_stubs():
    if "usb" not in sys.modules:
        usb = _stub("usb")
        core = _stub("usb.core", find=lambda *a, **k: [], USBError=type("USBError", (Exception,), {}))
        util = _stub("usb.util", ENDPOINT_IN=0x80, ENDPOINT_OUT=0x00,
                     endpoint_direction=lambda a: a & 0x80,
                     find_descriptor=lambda *a, **k: None)
        usb.core = core
        usb.util = util
    if "hid" not in sys.modules:
        _stub("hid", device=lambda *a, **k: None)
    try:
        import pymodbus.client.sync  # noqa: F401
    except Exception:
        import pymodbus.client  # noqa: F401
        m = _stub("pymodbus.client.sync", ModbusTcpClient=object, ModbusSerialClient=object)
        sys.modules["pymodbus.client"].sync = m


def setup():
    """Make ``import dali`` resolve to REPO and import the whole library."""
    global _done
    if _done:
        return
    if sys.path[0] != REPO:
        sys.path.insert(0, REPO)
    for k in [k for k in sys.modules if k == "dali" or k.startswith("dali.")]:
        del sys.modules[k]
    install_stubs()
    import dali
    got = os.path.realpath(os.path.dirname(os.path.dirname(dali.__file__)))
    if got != REPO:
        raise RuntimeError(f"HARNESS: dali imported from {got}, expected {REPO}")
    import dali.gear  # noqa: F401
    import dali.device  # noqa: F401
    import dali.sequences  # noqa: F401
    import dali.gear.sequences  # noqa: F401
    import dali.memory.location  # noqa: F401
    import dali.memory.info  # noqa: F401
    import dali.memory.oem  # noqa: F401
    import dali.memory.energy  # noqa: F401
    import dali.memory.diagnostics  # noqa: F401
    import dali.memory.maintenance  # noqa: F401
    _done = True
