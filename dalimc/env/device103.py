"""Specification model of IEC 62386-103 control devices on a bus (environment for E2 checks).

24-bit commands arrive as library Command objects and are decoded from their frame bits with
the literal tables (dalimc.spec.ref_codec.decode24), never with the library's decoder.

Modelled (IEC 62386-103 ed.1): DTR0/1/2 (+ DTR1:DTR0, DTR2:DTR1), device status byte, number
of instances, per instance {enabled, type, scheme, 24-bit filter, resolution, input value},
SET EVENT FILTER (DTR2:DTR1:DTR0), SET EVENT SCHEME (DTR0, ignored if > 4), QUERY INPUT VALUE /
LATCH (9.7.2: MSB-aligned bytes, unused trailing bits repeat the value from its MSB),
quiescent mode, memory-bank access (same rules as -102 9.10, see gear102.MemBank).
Bus merge rule: 0 answers -> none, 1 -> clean, >= 2 -> framing error.
"""
from dalimc.spec import ref_codec as R
from dalimc.env.gear102 import MemBank  # noqa: F401  (re-exported)

KEEP_WRITE_ENABLE = {"DTR0", "DTR1", "DTR2", "DTR1DTR0", "DTR2DTR1", "QueryContentDTR0", "QueryContentDTR1",
                     "QueryContentDTR2", "WriteMemoryLocation", "WriteMemoryLocationNoReply", "DirectWriteMemory"}


class Instance:
    def __init__(self, itype=1, enabled=True, resolution=1, value=0, scheme=0, filt=0):
        self.itype, self.enabled, self.resolution, self.value = itype, enabled, resolution, value
        self.scheme, self.filter = scheme, filt
        self.latched = []

    def value_bytes(self):
        """9.7.2: inputValue as ceil(resolution/8) bytes, MSB aligned, trailing bits repeat the value."""
        res, v = self.resolution, self.value
        nbytes = (res + 7) // 8
        total = nbytes * 8
        bits = [(v >> (res - 1 - i)) & 1 for i in range(res)]          # MSB first
        out = [bits[i % res] for i in range(total)]
        n = 0
        for b in out:
            n = (n << 1) | b
        return list(n.to_bytes(nbytes, "big"))


class Device:
    def __init__(self, short=None, instances=(), status=0, banks=None, groups=()):
        self.short = short
        self.groups = set(groups)
        self.instances = list(instances)
        self.status = status            # bits as in Table 15: 0 inputDeviceError .. 2 shortAddress is MASK .. 6 resetState
        self.dtr0 = self.dtr1 = self.dtr2 = 0
        self.quiescent = False
        self.write_enabled = False
        self.banks = banks or {}
        self.refuse_scheme = False
        self.quiescent_log = []

    def addressed(self, addr):
        k = addr[0]
        if k == "broadcast":
            return True
        if k == "unaddressed":
            return self.short is None
        if k == "short":
            return self.short == addr[1]
        if k == "group":
            return addr[1] in self.groups
        return False

    def _targets(self, inst):
        k = inst[0]
        if k == "InstanceNumber":
            return [i for n, i in enumerate(self.instances) if n == inst[1]]
        if k == "InstanceType":
            return [i for i in self.instances if i.itype == inst[1]]
        if k == "InstanceBroadcast":
            return list(self.instances)
        return []

    def execute(self, desc):
        mod, name, args = desc
        if name not in KEEP_WRITE_ENABLE:
            self.write_enabled = False
        tab = R.BY_NAME.get((mod, name), (None, None))[0]
        if tab == "DEV_SPECIAL":
            return self._special(name, args)
        if tab == "DEV_STD":
            if not self.addressed(args[0]):
                return None
            return self._std(name)
        if tab == "DEV_INST":
            if not self.addressed(args[0]):
                return None
            answers = [a for a in (self._inst(name, i) for i in self._targets(args[1])) if a is not None]
            if not answers:
                return None
            return answers[0] if len(answers) == 1 else "COLLISION"
        return None

    def _special(self, name, args):
        if name == "DTR0":
            self.dtr0 = args[0]
        elif name == "DTR1":
            self.dtr1 = args[0]
        elif name == "DTR2":
            self.dtr2 = args[0]
        elif name == "DTR1DTR0":
            self.dtr1, self.dtr0 = args
        elif name == "DTR2DTR1":
            self.dtr2, self.dtr1 = args
        elif name in ("WriteMemoryLocation", "WriteMemoryLocationNoReply"):
            if not self.write_enabled:
                return None
            bank = self.banks.get(self.dtr1)
            if bank is None:
                return None
            r = bank.write(self.dtr0, args[0])
            if self.dtr0 < 0xFF and not bank.nobble_dtr0:
                self.dtr0 += 1
            return r if name == "WriteMemoryLocation" else None
        return None

    def _std(self, name):
        if name == "QueryDeviceStatus":
            return self.status | (2 if self.quiescent else 0)
        if name == "QueryNumberOfInstances":
            return len(self.instances)
        if name == "QueryContentDTR0":
            return self.dtr0
        if name == "QueryContentDTR1":
            return self.dtr1
        if name == "QueryContentDTR2":
            return self.dtr2
        if name == "StartQuiescentMode":
            self.quiescent = True
            self.quiescent_log.append("start")
        elif name == "StopQuiescentMode":
            self.quiescent = False
            self.quiescent_log.append("stop")
        elif name == "QueryQuiescentMode":
            return "YES" if self.quiescent else None
        elif name == "EnableWriteMemory":
            self.write_enabled = True
        elif name == "ReadMemoryLocation":
            bank = self.banks.get(self.dtr1)
            if bank is None:
                return None
            v = bank.read(self.dtr0)
            if self.dtr0 < 0xFF and not bank.nobble_dtr0:
                self.dtr0 += 1
            return v
        return None

    def _inst(self, name, i):
        if name == "QueryInstanceEnabled":
            return "YES" if i.enabled else None
        if name == "QueryInstanceType":
            return i.itype
        if name == "QueryResolution":
            return i.resolution
        if name == "QueryInputValue":
            b = i.value_bytes()
            i.latched = b[1:]
            return b[0]
        if name == "QueryInputValueLatch":
            if i.latched:
                return i.latched.pop(0)
            return None
        if name == "SetEventFilter":
            i.filter = (self.dtr2 << 16) | (self.dtr1 << 8) | self.dtr0
        elif name == "QueryEventFilterZeroToSeven":
            return i.filter & 0xFF
        elif name == "QueryEventFilterEightToFifteen":
            return (i.filter >> 8) & 0xFF
        elif name == "QueryEventFilterSixteenToTwentyThree":
            return (i.filter >> 16) & 0xFF
        elif name == "SetEventScheme":
            if self.dtr0 <= 4 and not self.refuse_scheme:
                i.scheme = self.dtr0
        elif name == "QueryEventScheme":
            return i.scheme
        elif name == "EnableInstance":
            i.enabled = True
        elif name == "DisableInstance":
            i.enabled = False
        return None


class Bus24:
    def __init__(self, units):
        self.units = list(units)
        self.log = []

    def execute(self, cmd):
        from dali import frame as F
        if len(cmd.frame) != 24:
            self.log.append((("?", "non-24-bit", (cmd.frame.as_integer,)), None))
            return None
        desc = R.decode24(cmd.frame.as_integer)
        if R.table_sendtwice(desc) and not cmd.sendtwice:
            self.log.append((desc, None))      # a configuration command transmitted once is discarded by the units
            return None
        answers = []
        for u in self.units:
            a = u.execute(desc)
            if a is not None:
                answers.append(a)
        if not answers:
            out = None
        elif len(answers) == 1 and answers[0] != "COLLISION":
            out = F.BackwardFrame(0xFF if answers[0] == "YES" else answers[0])
        else:
            from dalimc.env import gear102 as _G
            out = F.BackwardFrameError(_G.COLLISION_BYTE)
        self.log.append((desc, None if out is None else ("err" if out.error else out.as_integer)))
        return out
