"""Specification model of IEC 62386-102 control gear on a bus (environment for E2 checks).

Commands arrive as library Command objects; the model never uses the library's decoder - it
reads `cmd.frame` bits and `type(cmd).devicetype` (the context a driver would announce with
ENABLE DEVICE TYPE) and decodes them with the literal tables of dalimc.spec.ref_codec.

Modelled (IEC 62386-102 ed.2):
  9.14 / 11.7  initialisationState {DISABLED, ENABLED, WITHDRAWN}, randomAddress, searchAddress,
               INITIALISE / RANDOMISE / COMPARE / WITHDRAW / PROGRAM / VERIFY / QUERY SHORT ADDRESS /
               TERMINATE; SET SHORT ADDRESS from DTR0
  11.5         QUERY DEVICE TYPE / QUERY NEXT DEVICE TYPE protocol (only when directly preceded)
  9.10         memory banks: DTR0 auto-increment (saturating at 0xFF), READ ignored for an absent bank,
               WRITE only while writeEnableState is ENABLED, writeEnableState reset by every command
               except DTR0/1/2, QUERY CONTENT DTR0/1/2, WRITE MEMORY LOCATION (- NO REPLY), lock byte
               at location 2 (0x55 unlocks lockable locations), latch byte 0xAA snapshots the bank
  209 11.3     Tc subset of DT8: temporary colour temperature from DTR1:DTR0, ACTIVATE, STORE Tc LIMIT
               with DTR2 selector, QUERY COLOUR VALUE (answers MSB, LSB into DTR0)
Bus merge rule: 0 answers -> none, 1 -> clean backward frame, >= 2 -> framing error.
"""
from dalimc.spec import ref_codec as R

DISABLED, ENABLED, WITHDRAWN = "DISABLED", "ENABLED", "WITHDRAWN"
KEEP_WRITE_ENABLE = {"DTR0", "DTR1", "DTR2", "QueryContentDTR0", "QueryContentDTR1", "QueryContentDTR2",
                     "WriteMemoryLocation", "WriteMemoryLocationNoReply"}


class MemBank:
    """One memory bank image.  cells[i] is None for an unimplemented location (hole)."""

    def __init__(self, number, cells, writable=(), lockable=(), has_lock=False, has_latch=False,
                 unlock_value=0x55, live=()):
        self.number = number
        self.cells = list(cells) + [None] * (256 - len(cells))
        self.writable = set(writable) | ({2} if (has_lock or has_latch) else set())
        self.lockable = set(lockable)
        self.has_lock, self.has_latch = has_lock, has_latch
        self.unlock_value = unlock_value
        self.snapshot = None
        self.live = list(live)          # [(first, last)] multi-byte counters that tick
        self.nobble_dtr0 = False
        self.refuse = set()             # locations the unit treats as read-only although declared RW
        self.writes = []                # (location, value) of every write that was stored

    @property
    def last(self):
        return self.cells[0] if self.cells[0] is not None else 0

    def implemented(self, loc):
        return loc <= self.last and self.cells[loc] is not None

    def read(self, loc):
        if not self.implemented(loc):
            return None
        if self.snapshot is not None and loc != 2:
            return self.snapshot[loc]
        return self.cells[loc]

    def write(self, loc, val):
        """Returns the stored value or None (answer NO)."""
        if not self.implemented(loc) or loc not in self.writable or loc in self.refuse:
            return None
        if loc in self.lockable and self.cells[2] != self.unlock_value:
            return None
        self.cells[loc] = val
        self.writes.append((loc, val))
        if loc == 2 and self.has_latch:
            self.snapshot = list(self.cells) if val == 0xAA else None
        return val

    def tick(self):
        """Live memory changes (counters increment) - invisible through a latched snapshot."""
        for first, last in self.live:
            if any(c is None for c in self.cells[first:last + 1]):
                continue
            n = int.from_bytes(bytes(self.cells[first:last + 1]), "big") + 0x0101
            n %= 1 << (8 * (last - first + 1))
            for i, b in enumerate(n.to_bytes(last - first + 1, "big")):
                self.cells[first + i] = b


class Gear:
    def __init__(self, short=None, groups=(), devicetypes=(), banks=None):
        self.short = short
        self.groups = set(groups)
        self.devicetypes = list(devicetypes)
        self.dtr0 = self.dtr1 = self.dtr2 = 0
        self.init_state = DISABLED
        self.random = 0xFFFFFF
        self.search = 0xFFFFFF
        self.write_enabled = False
        self.banks = banks or {}
        self.dt_pending = None          # remaining device types for QUERY NEXT DEVICE TYPE
        self.dt_armed = False           # previous command was QDT/QNDT for this unit
        # faults (non-conforming units, used by fault menus)
        self.ignore_program = False
        self.verify_no = False
        self.mute_compare_at_leaf = False
        # DT8 Tc subset
        self.tc_temp = 0xFFFF
        self.tc_actual = 0xFFFF
        self.tc_limits = {0: 0xFFFF, 1: 0xFFFF, 2: 0xFFFF, 3: 0xFFFF}
        self.colour_values = {}         # query selector -> 16-bit value
        self.dt8_log = []

    # ----------------------------------------------------------------------- addressing
    def addressed(self, addr):
        k = addr[0]
        if k == "broadcast":
            return True
        if k == "unaddressed":
            return self.short is None
        if k == "short":
            return self.short == addr[1]
        if k == "group":
            return addr[1] in self.groups
        return False

    # ----------------------------------------------------------------------- execution
    def execute(self, desc):
        """desc = reference descriptor.  Returns int answer, None, or 'YES'."""
        mod, name, args = desc
        armed, self.dt_armed = self.dt_armed, False
        if name not in KEEP_WRITE_ENABLE or mod != "gear.general":
            self.write_enabled = False
        tab = R.BY_NAME.get((mod, name), (None, None))[0]
        if name == "DAPC" or tab == "GEAR_STD":
            if not self.addressed(args[0]):
                return None
            return self._standard(mod, name, args, armed)
        if tab == "GEAR_SPECIAL":
            return self._special(name, args)
        return None

    def _standard(self, mod, name, args, armed):
        if mod == "gear.colour":
            return self._dt8(name)
        if mod != "gear.general":
            return None
        if name == "AddToGroup":
            self.groups.add(args[1])
        elif name == "RemoveFromGroup":
            self.groups.discard(args[1])
        elif name == "SetShortAddress":
            if self.dtr0 == 0xFF:
                self.short = None
            elif self.dtr0 & 0x81 == 0x01:
                self.short = self.dtr0 >> 1
        elif name == "EnableWriteMemory":
            self.write_enabled = True
        elif name == "QueryControlGearPresent":
            return "YES"
        elif name == "QueryMissingShortAddress":
            return "YES" if self.short is None else None
        elif name == "QueryContentDTR0":
            return self.dtr0
        elif name == "QueryContentDTR1":
            return self.dtr1
        elif name == "QueryContentDTR2":
            return self.dtr2
        elif name == "QueryGroupsZeroToSeven":
            return sum(1 << g for g in self.groups if g < 8)
        elif name == "QueryGroupsEightToFifteen":
            return sum(1 << (g - 8) for g in self.groups if g >= 8)
        elif name == "QueryRandomAddressH":
            return self.random >> 16
        elif name == "QueryRandomAddressM":
            return (self.random >> 8) & 0xFF
        elif name == "QueryRandomAddressL":
            return self.random & 0xFF
        elif name == "QueryDeviceType":
            if len(self.devicetypes) == 0:
                return 254
            if len(self.devicetypes) == 1:
                return self.devicetypes[0]
            self.dt_pending = sorted(self.devicetypes)
            self.dt_armed = True
            return 255
        elif name == "QueryNextDeviceType":
            if not armed or self.dt_pending is None:
                return None
            self.dt_armed = True
            if self.dt_pending:
                return self.dt_pending.pop(0)
            self.dt_pending = None
            self.dt_armed = False
            return 254
        elif name == "ReadMemoryLocation":
            bank = self.banks.get(self.dtr1)
            if bank is None:
                return None
            v = bank.read(self.dtr0)
            if self.dtr0 < 0xFF and not bank.nobble_dtr0:
                self.dtr0 += 1
            return v
        return None

    def _special(self, name, args):
        if name == "Terminate":
            self.init_state = DISABLED
        elif name == "DTR0":
            self.dtr0 = args[0]
        elif name == "DTR1":
            self.dtr1 = args[0]
        elif name == "DTR2":
            self.dtr2 = args[0]
        elif name == "Initialise":
            k = args[0]
            if k == "broadcast" or (k == "unaddressed" and self.short is None) or \
                    (k == "address" and self.short == args[1]):
                self.init_state = ENABLED
        elif name == "Randomise":
            if self.init_state != DISABLED:
                return "RANDOMISE"          # the bus asks the environment for the draw
        elif name == "Compare":
            if self.init_state == ENABLED and self.random <= self.search:
                if self.mute_compare_at_leaf and self.random == self.search:
                    return None
                return "YES"
        elif name == "Withdraw":
            if self.init_state == ENABLED and self.random == self.search:
                self.init_state = WITHDRAWN
        elif name == "SearchaddrH":
            self.search = (self.search & 0x00FFFF) | (args[0] << 16)
        elif name == "SearchaddrM":
            self.search = (self.search & 0xFF00FF) | (args[0] << 8)
        elif name == "SearchaddrL":
            self.search = (self.search & 0xFFFF00) | args[0]
        elif name == "ProgramShortAddress":
            if self.init_state != DISABLED and self.random == self.search and not self.ignore_program:
                self.short = None if args[0] == "MASK" else args[0]
        elif name == "VerifyShortAddress":
            if self.init_state != DISABLED and args[0] != "MASK" and self.short == args[0] and not self.verify_no:
                return "YES"
        elif name == "QueryShortAddress":
            if self.init_state != DISABLED and self.random == self.search:
                return 0xFF if self.short is None else (self.short << 1) | 1
        elif name in ("WriteMemoryLocation", "WriteMemoryLocationNoReply"):
            if not self.write_enabled:
                return None
            bank = self.banks.get(self.dtr1)
            if bank is None:
                return None
            r = bank.write(self.dtr0, args[0])
            if self.dtr0 < 0xFF and not bank.nobble_dtr0:
                self.dtr0 += 1
            return r if name == "WriteMemoryLocation" else None
        return None

    def _dt8(self, name):
        self.dt8_log.append((name, self.dtr0, self.dtr1, self.dtr2))
        if name == "SetTemporaryColourTemperature":
            self.tc_temp = (self.dtr1 << 8) | self.dtr0
        elif name == "Activate":
            if self.tc_temp != 0xFFFF:
                self.tc_actual = self.tc_temp
                self.tc_temp = 0xFFFF
        elif name == "StoreColourTemperatureTcLimit":
            if self.dtr2 in self.tc_limits:
                self.tc_limits[self.dtr2] = (self.dtr1 << 8) | self.dtr0
        elif name == "QueryColourValue":
            v = self.colour_values.get(self.dtr0)
            if v is None:
                return 0xFF
            self.dtr0 = v & 0xFF
            return v >> 8
        return None


class Bus:
    """A DALI bus with gear; `execute(cmd)` returns a backward frame object, or None."""

    def __init__(self, units, chooser=None, draw_alphabet=None):
        self.units = list(units)
        self.chooser = chooser
        self.draw_alphabet = draw_alphabet
        self.log = []           # (descriptor, answer) history
        self.sendtwice_seen = 0

    def execute(self, cmd):
        from dali import frame as F
        v = cmd.frame.as_integer
        if len(cmd.frame) != 16:
            self.log.append((("?", "non-16-bit", (v,)), None))
            return None
        desc = R.decode16(v, type(cmd).devicetype)
        if R.table_sendtwice(desc) and not cmd.sendtwice:
            # a driver transmits a command twice only when cmd.sendtwice says so; control gear discards a configuration
            # command that is not repeated within 100 ms (IEC 62386-102 9.3): nothing happens, nobody answers
            self.log.append((desc, None))
            self.sent_once_discarded = getattr(self, "sent_once_discarded", 0) + 1
            return None
        answers = []
        for u in self.units:
            a = u.execute(desc)
            if a == "RANDOMISE":
                u.random = self.draw(u)
            elif a is not None:
                answers.append(0xFF if a == "YES" else a)
        if not answers:
            out = None
        elif len(answers) == 1:
            out = F.BackwardFrame(answers[0])
        else:
            out = F.BackwardFrameError(COLLISION_BYTE)
        self.log.append((desc, None if out is None else ("err" if out.error else out.as_integer)))
        return out

    def draw(self, unit):
        idx = self.units.index(unit)
        n = len(self.draw_alphabet)
        k = self.chooser.choose(n, f"draw:u{idx}", costs=[0] * n)
        return self.draw_alphabet[k]


# A second sequence alive at the same time on ANOTHER bus (an application with two gateways): when PARTNER is set
# (a callable returning (generator, bus, judge)), every run_sequence() call drives that partner too - entirely before the
# main sequence starts (switch 0), entirely after its k-th command (switch k), or command by command ("alt").  The main
# sequence is judged by the caller as always; what the partner's judge objects to is collected in PARTNER_PROBLEMS.
COLLISION_BYTE = 0xFF        # data byte a gateway hands over with the framing error when several units answer at once: arbitrary
PARTNER = None
PARTNER_SWITCH = 1
PARTNER_PROBLEMS = []


class _Side:
    def __init__(self, seq, bus, cap, fault=None):
        self.seq, self.bus, self.cap, self.fault = seq, bus, cap, fault
        self.n, self.resp, self.done = 0, None, None

    def step(self):
        """Advance until one command has been executed (or the sequence ended)."""
        from dali.command import Command
        while self.done is None:
            try:
                item = self.seq.send(self.resp)
                self.resp = None
                if isinstance(item, Command):
                    if self.n >= self.cap:
                        self.seq.close()
                        self.done = ("cap", None, self.n)
                        return
                    fr = self.bus.execute(item)
                    if self.fault is not None:
                        fr = self.fault(self.n, item, fr)
                    self.n += 1
                    if item.response is not None:
                        self.resp = item.response(fr)
                    return
            except StopIteration as e:
                self.done = ("return", e.value, self.n)
            except Exception as e:
                self.done = ("raise", e, self.n)

    def finish(self):
        while self.done is None:
            self.step()


def _run_with_partner(seq, bus, max_commands, fault):
    pseq, pbus, pjudge = PARTNER()
    main, part = _Side(seq, bus, max_commands, fault), _Side(pseq, pbus, 6000)
    sw = PARTNER_SWITCH
    if sw == 0:
        part.finish()
    while main.done is None:
        main.step()
        if sw == "alt":
            part.step()
        elif main.n == sw and main.done is None:
            part.finish()
    part.finish()
    bad = pjudge(part.done[0], part.done[1])
    if bad:
        PARTNER_PROBLEMS.append((sw, bad))
    return main.done


def run_sequence(seq, bus, max_commands, fault=None):
    """Drive a generator sequence the way a driver does: commands are executed on the bus and
    the command's own response class wraps the backward frame; sleep/progress objects are
    skipped.  `fault(index, cmd, frame)` may replace an answer.  Returns (kind, value, ncmds)
    with kind in {'return', 'raise', 'cap'}.
    """
    if PARTNER is not None:
        return _run_with_partner(seq, bus, max_commands, fault)
    from dali.command import Command
    n = 0
    resp = None
    try:
        while True:
            item = seq.send(resp)
            resp = None
            if isinstance(item, Command):
                if n >= max_commands:
                    seq.close()
                    return ("cap", None, n)
                fr = bus.execute(item)
                if fault is not None:
                    fr = fault(n, item, fr)
                n += 1
                if item.response is not None:
                    resp = item.response(fr)
    except StopIteration as e:
        return ("return", e.value, n)
    except Exception as e:       # the sequence raised
        return ("raise", e, n)


def run_interleaved(seqs, buses, max_commands, pattern=(1, 1)):
    """Several generator sequences driven in turns (pattern[i] commands of sequence i, then the next one ...), each on its
    own bus - two buses / drivers used by one application at the same time.  Returns [(kind, value, ncmds)] per sequence."""
    from dali.command import Command
    n = len(seqs)
    state = [{"resp": None, "n": 0, "done": None} for _ in seqs]
    turn = 0
    while any(st["done"] is None for st in state):
        i = turn % n
        turn += 1
        st = state[i]
        if st["done"] is not None:
            continue
        budget = pattern[i % len(pattern)]
        while budget > 0 and st["done"] is None:
            try:
                item = seqs[i].send(st["resp"])
                st["resp"] = None
                if isinstance(item, Command):
                    if st["n"] >= max_commands:
                        seqs[i].close()
                        st["done"] = ("cap", None, st["n"])
                        break
                    fr = buses[i].execute(item)
                    st["n"] += 1
                    budget -= 1
                    if item.response is not None:
                        st["resp"] = item.response(fr)
            except StopIteration as e:
                st["done"] = ("return", e.value, st["n"])
            except Exception as e:
                st["done"] = ("raise", e, st["n"])
    return [st["done"] for st in state]
