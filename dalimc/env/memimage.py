"""Memory images for the spec-model units, derived from the reference layout table only."""
from dalimc.spec import memory_layout as M
from dalimc.env.gear102 import MemBank


def _lcg(seed):
    x = seed

    def f(i):
        nonlocal x
        return (1103515245 * (i + seed) + 12345 + (i * i * 7)) >> 3 & 0xFF
    return f


IMAGES = {
    "ff": lambda i: 0xFF,
    "zero": lambda i: 0x00,
    "a5": lambda i: 0xA5,
    "index": lambda i: i & 0xFF,
    "rnd1": _lcg(17),
    "rnd2": _lcg(4242),
    "ascii": lambda i: 0x41 + (i % 26),
    "valid": lambda i: 0x01,
    "six": lambda i: 0x06,              # scale byte of scaled values at its upper limit (10^6)
    "fa": lambda i: 0xFA,               # ... and at its lower limit (10^-6)
}


def rows_of(bname):
    return [r for r in M.VALUES if r[0] == bname]


def make_bank(bname, image="index", last=None, holes=(), unlock=0x55, lock_byte=0xFF):
    mod, number, deflast, has_lock, has_latch = M.BANKS[bname]
    img = IMAGES[image]
    cells = [img(i) for i in range(256)]
    cells[0] = deflast if last is None else last
    cells[1] = 0x00
    if has_lock or has_latch:
        cells[2] = lock_byte
    for h in holes:
        cells[h] = None
    writable, lockable, live = set(), set(), []
    for r in rows_of(bname):
        locs = range(r[3], r[4] + 1)
        if r[1] in ("LastAddress", "LockByte"):
            continue
        if M.writable(r):
            writable.update(locs)
        if M.lockable(r):
            lockable.update(locs)
        if has_latch and M.width(r) > 1 and not M.writable(r):
            first = r[3] + (1 if r[2] == "scaled" else 0)
            live.append((first, r[4]))
    b = MemBank(number, cells, writable, lockable, has_lock, has_latch, unlock, live)
    return b


_SUB = {}


def make_addr(fam, sa, aform=None):
    """The short address of the unit in one of the spellings an application may use: the library's own address object
    (default), a plain integer (gear only - the library documents it as 16-bit DALI), or an instance of an application
    subclass of the address class (an address object that carries, say, a label)."""
    from dali.address import GearShort, DeviceShort
    base = GearShort if fam == "gear" else DeviceShort
    if aform == "int" and fam == "gear":
        return sa
    if aform == "subclass":
        if base not in _SUB:
            _SUB[base] = type("Labelled" + base.__name__, (base,), {"label": "luminaire"})
        return _SUB[base](sa)
    return base(sa)
