"""Serial worlds: the real DriverLubaRs232 / DriverSCIRS232 on the virtual loop.

Seam: dali.driver.serial.serial_asyncio.create_serial_connection is replaced by a coroutine
that returns (fake transport, protocol_factory()); the gateway model feeds
protocol.data_received through reader callbacks injected by the explorer.

Gateway models (assumptions, from the constants, comments and parsers of serial.py - the
vendor PDFs are not available offline):
 LUBA: frames `0x59 cmd len payload xor(cmd..payload)`.  0x20 -> 0x21 device info (20 bytes);
   0x2A -> 0x2B settings echo; 0x32 (add frame to TX buffer) -> 0x33 accept (len 2: id, 0), then,
   when the frame goes out, one 0x31 event of type 0 per transmission (tick, line, status, id,
   frame bytes), then an event of type 2 (info = 8) with the backward frame if there is one,
   type 2 / info 63 for a framing error; frames of other masters arrive as type-2 events with
   info = number of bits.  Transmissions are FIFO.
 SCI: 5-byte frames `status d_hi d_mid d_lo xor`.  A transmit request is answered with an echo
   of the frame (when the echo bit is set; code 3 / 8), a status frame code 0 (confirmation)
   and, if the bus answered, a frame of code 2 with the value in d_lo; a garbled answer is an
   ERROR frame (code 7, d_lo = 3).  Frames of other masters arrive as code 3 / 8 frames.
"""
from functools import reduce
from operator import xor

from .engine import World, Caller


class FakeTransport:
    def __init__(self, world):
        self.w = world
        self.loop = world.loop
        self.closed = False

    def write(self, data):
        self.w.raw_writes.append(bytes(data))
        self.w.gateway.on_write(bytes(data))

    def close(self):
        self.closed = True


def luba_frame(cmd, payload):
    body = [cmd, len(payload)] + list(payload)
    return bytes([0x59] + body + [reduce(xor, body)])


def luba_tx_event(tx_id, frame_bytes, tick=0):
    return luba_frame(0x31, [tick >> 8, tick & 0xFF, 0, (0 << 6) | (8 * len(frame_bytes) & 0x3F), tx_id] + list(frame_bytes))


def luba_rx_event(frame_bytes, info=None, tick=0):
    info = 8 * len(frame_bytes) if info is None else info
    return luba_frame(0x31, [tick >> 8, tick & 0xFF, 0, (2 << 6) | (info & 0x3F)] + list(frame_bytes))


class LubaGW:
    def __init__(self, world, bus):
        self.w, self.bus = world, bus
        self.pending = []       # channel 0: replies to the driver
        self.observe = []       # channel 1: foreign traffic (scenario-provided frames)
        self.wire = []
        self.wire_pos = []      # position in the event trace at which each data frame was handed to the gateway
        self.answers = {}
        self.tx_id = 0
        self.silent_confirm = False     # fault: stops confirming
        self.silent_answer = False

    def on_write(self, data):
        if len(data) < 4 or data[0] != 0x59:
            self.wire.append(("junk", data.hex(), False, None))
            self.wire_pos.append(len(self.w.trace))
            return
        cmd = data[1]
        if cmd == 0x20:
            payload = [0, 0, 0, 0, 0, 1] + [0] * 7 + [2] + [3, 4] + list((24166096).to_bytes(4, "big"))
            self.pending.append(luba_frame(0x21, payload))
        elif cmd == 0x2A:
            self.pending.append(luba_frame(0x2B, [data[3], data[4], data[5]]))
        elif cmd == 0x32:
            bits, mode = data[4], data[5]
            nbytes = 2 if bits == 16 else 3
            fb = list(data[6:6 + nbytes])
            value = int.from_bytes(bytes(fb), "big")
            twice = bool(mode & 0x80)
            idx = len(self.wire)
            self.wire.append((bits, value, twice, mode & 0x7F))
            self.wire_pos.append(len(self.w.trace))
            self.tx_id = (self.tx_id + 1) & 0xFF
            if self.silent_confirm:
                return
            self.pending.append(luba_frame(0x33, [self.tx_id, 0]))
            for _ in range(2 if twice else 1):
                self.pending.append(luba_tx_event(self.tx_id, fb))
            out = self.bus(bits, value, idx)
            self.answers[idx] = out
            if self.silent_answer:
                return
            if out[0] == "value":
                self.pending.append(luba_rx_event([out[1]]))
            elif out[0] == "err":
                self.pending.append(luba_rx_event([], info=63))


def sci_frame(status, hi, mid, lo):
    b = [status, hi, mid, lo]
    return bytes(b + [reduce(xor, b)])


class SciGW:
    def __init__(self, world, bus):
        self.w, self.bus = world, bus
        self.pending = []
        self.observe = []
        self.wire = []
        self.wire_pos = []
        self.answers = {}
        self.silent_confirm = False
        self.silent_answer = False
        self.dev_id = 0x5

    def on_write(self, data):
        if len(data) != 5:
            self.wire.append(("junk", data.hex(), False, None))
            self.wire_pos.append(len(self.w.trace))
            return
        ctl, hi, mid, lo, chk = data
        mode = ctl & 0x0F
        if mode == 2 and (ctl & 0x40):          # identify / device info query
            self.pending.append(sci_frame((self.dev_id << 4) | 0, 0, 0, 0))
            return
        bits = {2: 8, 3: 16, 8: 24}.get(mode)
        nbytes = bits // 8
        value = int.from_bytes(bytes([hi, mid, lo][:nbytes]), "big")
        twice = bool(ctl & 0x10)
        idx = len(self.wire)
        self.wire.append((bits, value, twice, ctl))
        self.wire_pos.append(len(self.w.trace))
        if self.silent_confirm:
            return
        if ctl & 0x20:      # echo: the transmitted frame is reported back, right-aligned as received frames are
            fb = [0, 0, 0] + [hi, mid, lo][:nbytes]
            self.pending.append(sci_frame((self.dev_id << 4) | mode, *fb[-3:]))
        self.pending.append(sci_frame((self.dev_id << 4) | 0, 0, 0, 0))
        out = self.bus(bits, value, idx)
        self.answers[idx] = out
        if self.silent_answer:
            return
        if out[0] == "value":
            self.pending.append(sci_frame((self.dev_id << 4) | 2, 0, 0, out[1]))
        elif out[0] == "err":
            self.pending.append(sci_frame((self.dev_id << 4) | 7, 0, 0, 3))


class SerialWorld(World):
    def __init__(self, driver_kind, bus, callers, subscribers=0, foreign=None, silent=None):
        super().__init__()
        self.driver_kind, self.bus = driver_kind, bus
        self.user_callers = callers
        self.nsubs = subscribers
        self.foreign = list(foreign or [])
        self.silent = silent
        self.connect_caller = None
        self.status_log = []
        self.raw_writes = []
        self.deliveries = []        # (position in the event trace, bytes) of every gateway frame handed to the driver

    def build(self):
        from dali.driver import serial as S
        self.S = S
        world = self

        async def fake_create(loop=None, protocol_factory=None, **kw):
            proto = protocol_factory()
            tr = FakeTransport(world)
            world.protocol, world.transport = proto, tr
            world.loop.call_soon(proto.connection_made, tr)
            return tr, proto

        class _SA:
            create_serial_connection = staticmethod(fake_create)
            SerialTransport = object
        S.serial_asyncio = _SA
        if self.driver_kind == "luba":
            self.gateway = LubaGW(self, self.bus)
            self.driver = S.DriverLubaRs232("luba232:/dev/fake")
        else:
            self.gateway = SciGW(self, self.bus)
            self.driver = S.DriverSCIRS232("scirs232:/dev/fake")
        self.gateway.observe = list(self.foreign)
        if self.silent == "confirm":
            pass
        self.connect_caller = Caller("connect", lambda w: w.driver.connect())
        ready = lambda w: w.driver.is_connected
        for c in self.user_callers:
            c.start_enabled = ready
        self.callers = [self.connect_caller] + list(self.user_callers)

    def timer_enabled(self):
        # the connection handshake is not under test: its timeouts only fire when the gateway has
        # nothing left to say (a dead gateway), never as a scheduling deviation
        return self.driver.is_connected or (not self.gateway.pending and not self.loop.has_ready())

    def channels(self):
        gw = self.gateway
        out = [("gw:0", lambda: bool(gw.pending), self._deliver0)]
        if gw.observe:
            out.append(("gw:1", lambda: bool(gw.observe) and self.driver.is_connected, self._deliver1))
        return out

    def _deliver0(self):
        data = self.gateway.pending.pop(0)
        die = getattr(self.gateway, "die_mid", None)       # [reports still delivered whole, bytes of the next one]
        if die is not None:
            if die[0] > 0:
                die[0] -= 1
            else:
                # the gateway dies in the middle of this report: only its first bytes arrive, then nothing ever again
                data = data[:die[1]]
                self.gateway.pending.clear()
                self.gateway.silent_confirm = True
                self.gateway.dead = True
                self.gateway.die_mid = None
        self.deliveries.append((len(self.trace), data))
        self.loop.inject(self.protocol.data_received, data)

    def _deliver1(self):
        self.loop.inject(self.protocol.data_received, self.gateway.observe.pop(0))

    def finish(self):
        d = self.driver
        p = getattr(self, "protocol", None)
        return {
            "callers": [c.outcome() for c in self.user_callers],
            "connect": self.connect_caller.outcome(),
            "wire": list(self.gateway.wire),
            "lock": d.transaction_lock.locked(),
            "tx_lock": p._tx_lock.locked() if p else None,
            "rx_state": p._rx_state.name if p else None,
            "connected": d.is_connected,
        }
