"""HID worlds: the real dali.driver.hid.tridonic / hasseb drivers on the virtual loop, talking
to gateway models through a fake `os` (the module attribute hid.os is replaced - a seam, no
source hook).

Gateway models (assumptions, from the constants / struct templates / comments of hid.py):
 Tridonic DALI-USB: 64-byte reports.  INIT/READVERSION -> mode 0x01 report with version in
   bytes 3,4; INIT/READSERIAL -> mode 0x01 report with serial in bytes 1..4.  SEND(seq, ctrl,
   mode, frame): the bus is serial, so commands are processed FIFO; per transmission one
   mode-0x12 report of type 0x73 (16 bit) / 0x76 (24 bit) echoing the frame, then one report
   0x72 (backward frame, value in frame[3]) / 0x71 (no frame) / 0x77 with frame[3] = 3
   (framing error); every report carries the command's sequence number in byte 8.  Frames
   seen from other masters are reported with mode 0x11.  Documented firmware bug: a foreign
   frame equal to the last frame the interface transmitted is reported with mode 0x12 and the
   old sequence number.
 hasseb: 2-byte frames written once (twice for send-twice); a 2-byte status report
   (1 no answer, 2 ok + data, 3 invalid answer + data) only for frames that expect an answer.
"""
import struct

from dalimc.spec import ref_codec as R
from .engine import World

FD0 = 7


class FakeOS:
    O_RDWR, O_NONBLOCK = 2, 2048

    def __init__(self, world):
        self.w = world

    def open(self, path, flags):
        w = self.w
        w.open_calls.append((round(w.loop.time(), 6), path))
        if not w.device_present or (getattr(w, "use_glob", False) and path != w.node()):
            raise FileNotFoundError(path)
        w.fd = (w.fd or FD0 - 1) + 1
        w.lost = False
        w.rxbuf = []
        w.gateway.reset()
        return w.fd

    def read(self, fd, n):
        w = self.w
        if w.lost or fd != w.fd:
            raise OSError(5, "device gone")
        if not w.rxbuf:
            raise BlockingIOError()
        return w.rxbuf.pop(0)

    def write(self, fd, data):
        w = self.w
        if w.lost or fd != w.fd:
            raise OSError(5, "device gone")
        drv = getattr(w, "driver", None)
        if getattr(w, "fail_handshake_writes", 0) > 0 and getattr(w, "return_times", None) and drv is not None and not drv.connected.is_set():
            # the gateway vanishes again during the handshake that follows its return
            w.fail_handshake_writes -= 1
            w.trace.append("fault:loss")
            w._lose()
            raise OSError(19, "No such device")
        if drv is not None and drv.connected.is_set():
            w.nwrites = getattr(w, "nwrites", 0) + 1
        if getattr(w, "fail_write_at", None) is not None and getattr(w, "fail_write_at", None) == getattr(w, "nwrites", 0) and drv.connected.is_set():
            w.fail_write_at = None
            # the gateway vanishes at exactly this write (command writes are counted: those made while the driver is connected)
            w.trace.append("fault:loss")
            w._lose()
            raise OSError(19, "No such device")
        w.gateway.on_write(bytes(data))
        return len(data)

    def close(self, fd):
        self.w.closed.append(fd)


class FakeGlob:
    """glob module seen by the driver: the gateway's device node, when present, under its CURRENT name."""

    def __init__(self, world):
        self.w = world

    def glob(self, pattern):
        import fnmatch
        w = self.w
        w.glob_calls.append((round(w.loop.time(), 6), pattern))
        if w.device_present and fnmatch.fnmatch(w.node(), pattern):
            return [w.node()]
        return []


class FixedRandom:
    """The harness owns the driver's random source: every draw yields the v-th possible outcome (1-based, wrapping) of the
    range the CODE asked for - never a value outside that range, so a correct draw of any spelling stays legal, and with the
    driver's own `randint(1, 255)` the v-th outcome is v itself."""

    def __init__(self, v):
        self.v = v

    def randint(self, a, b):
        return a + (self.v - 1) % (b - a + 1)

    def randrange(self, a, b=None, step=1):
        if b is None:
            a, b = 0, a
        return a + step * ((self.v - 1) % max(1, (b - a + step - 1) // step))

    def getrandbits(self, k):
        return (self.v - 1) % (1 << k)

    def random(self):
        return ((self.v - 1) % 256) / 256.0

    def choice(self, seq):
        return seq[(self.v - 1) % len(seq)]


_REPORT = struct.Struct(">BB4sHB55x")


def report(mode, rtype, frame4=b"\0\0\0\0", seq=0, interval=0):
    return _REPORT.pack(mode, rtype, frame4, interval, seq)


class TridonicGW:
    def __init__(self, world, bus):
        self.w, self.bus = world, bus
        self.reset()
        self.wire = []          # (bits, value, sendtwice, seq) in transmission order
        self.answers = {}       # index in wire -> outcome given

    def reset(self):
        self.pending = []       # reports not yet delivered on channel 0
        self.observe = []       # foreign-traffic reports (channel 1), filled by scenarios
        self.inits = getattr(self, "inits", [])
        self.epoch = len(getattr(self, "wire", []))     # index of the first frame transmitted after this (re)opening

    def on_write(self, data):
        self.w.raw_writes.append(bytes(data))
        cmd = data[0]
        if cmd == 0x01:
            self.inits.append(data[1])
            if data[1] == 0x00:
                self.pending.append(bytes([0x01, 0, 0, 2, 5]) + bytes(59))
            elif data[1] == 0x02:
                self.pending.append(bytes([0x01, 0xDE, 0xAD, 0xBE, 0xEF]) + bytes(59))
        elif cmd == 0x12:
            seq, ctrl, mode = data[1], data[2], data[3]
            bits = {3: 16, 6: 24, 2: 8}.get(mode)
            value = int.from_bytes(data[4:8], "big")
            twice = bool(ctrl & 0x20)
            idx = len(self.wire)
            self.wire.append((bits, value, twice, seq))
            rtype = 0x73 if bits == 16 else 0x76
            # bus busy: traffic of another master passes (and is reported as observed) before the interface gets to transmit
            for rep in getattr(self.w, "foreign_before", {}).get(idx, ()):
                self.pending.append(rep)
            for _ in range(2 if twice else 1):
                self.pending.append(report(0x12, rtype, data[4:8], seq))
            out = self.bus(bits, value, idx)
            self.answers[idx] = out
            if out[0] == "value":
                self.pending.append(report(0x12, 0x72, bytes([0, 0, 0, out[1]]), seq))
            elif out[0] == "err":
                self.pending.append(report(0x12, 0x77, bytes([0, 0, 0, 3]), seq))
            else:
                self.pending.append(report(0x12, 0x71, b"\0\0\0\0", seq))
            if getattr(self.w, "dup", False):
                # documented firmware bug: a foreign frame equal to the last transmitted one is
                # reported as if the interface had sent it (same sequence number)
                self.pending.append(report(0x12, rtype, data[4:8], seq))
        elif cmd == 0x40:
            self.wire.append(("power", data[1], False, 0))


class HassebGW:
    def __init__(self, world, bus):
        self.w, self.bus = world, bus
        self.reset()
        self.wire = []
        self.answers = {}

    def reset(self):
        self.pending = []
        self.observe = []
        self.last = None
        self.epoch = len(getattr(self, "wire", []))

    @staticmethod
    def expects_answer(v):
        hi, lo = v >> 8, v & 0xFF
        if R.gear_addr(hi >> 1) is not None:
            return bool(hi & 1) and lo >= 0x90
        return hi in (0xA9, 0xB9, 0xBB, 0xC7)

    def on_write(self, data):
        self.w.raw_writes.append(bytes(data))
        v = int.from_bytes(data[:2], "big")
        idx = len(self.wire)
        self.wire.append((16, v, False, None))
        if self.expects_answer(v):
            out = self.bus(16, v, idx)
            self.answers[idx] = out
            if getattr(self.w, "idle_reports", False):
                # the hasseb reports "no data available" (status 0) while it has nothing to say; the byte after the status
                # is a don't-care (here: zero, then whatever the last data byte was)
                self.pending.append(bytes([0, 0]))
                self.pending.append(bytes([0, getattr(self, "last_data", 0x80)]))
            if out[0] == "value":
                self.last_data = out[1] or 0x80
                self.pending.append(bytes([2, out[1]]))
            elif out[0] == "err":
                self.pending.append(bytes([3, out[1] if len(out) > 1 else 0x55]))
            else:
                self.pending.append(bytes([1, 0]))


class HidWorld(World):
    """driver_kind in {'tridonic', 'hasseb'}; bus(bits, value, index) -> ('none',) | ('value', v) | ('err',)."""

    def __init__(self, driver_kind, bus, callers, start_seq=1, reconnect_limit=None, exceptions_on_send=True,
                 loss=False, returns=False, subscribers=0, foreign=None):
        super().__init__()
        self.driver_kind, self.bus = driver_kind, bus
        self.callers = callers
        self.start_seq, self.reconnect_limit = start_seq, reconnect_limit
        self.exceptions_on_send = exceptions_on_send
        self.loss_enabled, self.return_enabled = loss, returns
        self.device_present, self.lost = True, False
        self.fd = None
        self.rxbuf = []
        self.closed, self.open_calls = [], []
        self.raw_writes = []
        self.status_log = []
        self.traffic = []
        self.loss_budget = 1 if loss else 0
        self.nsubs = subscribers
        self.subs = []
        self.foreign = list(foreign or [])

    def build(self):
        from dali.driver import hid as H
        self.H = H
        H.os = FakeOS(self)
        H.random = FixedRandom(self.start_seq)
        self.glob_calls = []
        self.enumerations = 0
        H.glob = FakeGlob(self)
        cls = H.tridonic if self.driver_kind == "tridonic" else H.hasseb
        self.gateway = (TridonicGW if self.driver_kind == "tridonic" else HassebGW)(self, self.bus)
        if getattr(self, "use_glob", False):
            self.driver = cls("/dev/dali/hidraw*", glob=True, reconnect_interval=1, reconnect_limit=self.reconnect_limit)
        else:
            self.driver = cls("/dev/dali/fake", reconnect_interval=1, reconnect_limit=self.reconnect_limit)
        self.driver.exceptions_on_send = self.exceptions_on_send
        self.driver.connection_status_callback.register(
            lambda drv, status: self.status_log.append((round(self.loop.time(), 6), status)))
        if getattr(self, "perm_subscriber", True):
            self.driver.bus_traffic.register(self._traffic(0))
        self.driver.connect()
        self.oneshot_calls = 0
        if getattr(self, "oneshot_observers", False):
            # application observers that unregister themselves from inside their first call (a "tell me once" callback), one on
            # bus_traffic and one on the connection status: what observers do is not a bus outcome
            def oneshot(registry):
                box = {}

                def cb(*a):
                    self.oneshot_calls += 1
                    if not box.get("done"):          # (already-scheduled calls may still arrive after the unregistration)
                        box["done"] = True
                        box["handle"].unregister()
                box["handle"] = registry.register(cb)
            oneshot(self.driver.bus_traffic)
            oneshot(self.driver.connection_status_callback)
        self.gateway.observe = list(self.foreign)      # (opening the device resets the gateway model)

    def _traffic(self, k):
        def cb(drv, command, response, error):
            self.traffic.append((k, command, response, error))
        return cb

    def channels(self):
        gw = self.gateway
        out = [("gw:0", lambda: bool(gw.pending) and not self.lost and self.fd in self.loop.readers, self._deliver0)]
        if getattr(self, "reorder_reports", False) and self.driver_kind == "tridonic":
            # the DALI-USB may hand over the reports of ONE command in another order (the driver's collecting loop is
            # written for that): the second pending report overtakes the first when both carry the same sequence number
            def can_swap():
                p = gw.pending
                return (len(p) >= 2 and not self.lost and self.fd in self.loop.readers and p[0][0] == 0x12 and p[1][0] == 0x12
                        and p[0][8] == p[1][8] and p[0] != p[1])
            out.append(("gw:0'", can_swap, self._deliver0_second))
        if gw.observe:
            out.append(("gw:1", lambda: bool(gw.observe) and not self.lost and self.fd in self.loop.readers, self._deliver1))
        return out

    def _deliver0(self):
        self.rxbuf.append(self.gateway.pending.pop(0))
        cb, args = self.loop.readers[self.fd]
        self.loop.inject(cb, *args)

    def _deliver0_second(self):
        self.rxbuf.append(self.gateway.pending.pop(1))
        cb, args = self.loop.readers[self.fd]
        self.loop.inject(cb, *args)

    def _deliver1(self):
        self.rxbuf.append(self.gateway.observe.pop(0))
        cb, args = self.loop.readers[self.fd]
        self.loop.inject(cb, *args)

    def extra_events(self):
        ev = []
        if self.loss_budget > 0:
            ev.append(("fault:loss", lambda: not self.lost and self.fd is not None and self.fd in self.loop.readers, self._lose, "fault"))
        if self.return_enabled:
            ev.append(("return", lambda: self.lost and not self.device_present, self._return, "event"))
        return ev

    def _lose(self):
        self.lost = True
        self.device_present = False
        self.loss_times = getattr(self, "loss_times", []) + [round(self.loop.time(), 6)]
        self.loss_budget -= 1
        self.gateway.pending = []
        self.rxbuf = []
        if self.fd in self.loop.readers:
            cb, args = self.loop.readers[self.fd]
            self.loop.inject(cb, *args)        # the selector reports the fd readable (error / EOF)

    def _return(self):
        self.device_present = True
        self.return_times = getattr(self, "return_times", []) + [round(self.loop.time(), 6)]
        self.enumerations += 1          # a USB device that comes back is enumerated again - under the next free node name

    def node(self):
        return f"/dev/dali/hidraw{3 + getattr(self, 'enumerations', 0)}" if getattr(self, "use_glob", False) else "/dev/dali/fake"

    def finish(self):
        d = self.driver
        obs = {
            "callers": [c.outcome() for c in self.callers],
            "wire": list(self.gateway.wire),
            "lock": d.transaction_lock.locked(),
            "status": list(self.status_log),
            "connected": d.connected.is_set(),
            "reconnect_pending": d._reconnect_task is not None and not d._reconnect_task.done(),
            "reconnect_exception": (repr(d._reconnect_task.exception()) if d._reconnect_task is not None and d._reconnect_task.done()
                                    and not d._reconnect_task.cancelled() and d._reconnect_task.exception() else None),
            "loop_exceptions": [str(x)[:200] for x in getattr(self, "loop_exceptions", [])][:3],
        }
        if self.driver_kind == "tridonic":
            obs["outstanding"] = sorted(d._outstanding)
            obs["semaphore"] = d._command_semaphore._value
        else:
            obs["command_lock"] = d._command_lock.locked()
        return obs
