"""Virtual asyncio event loop driven step by step by the explorer (E3).

A BaseEventLoop subclass without selector: time is virtual, add_reader/remove_reader only
record the callback, and nothing runs unless the explorer asks for it.  `run_batch` executes
exactly one iteration of BaseEventLoop._run_once (the ntodo = len(_ready) handles that are
ready NOW, FIFO, never reordered); external events (fd readable, timers) are appended to the
ready queue by the explorer at iteration boundaries only, as a real selector loop would.
"""
import asyncio
import heapq
from asyncio import events


class VLoop(asyncio.BaseEventLoop):
    def __init__(self):
        super().__init__()
        self._vtime = 0.0
        self._clock_resolution = 1e-9
        self.readers = {}
        self.exc_log = []
        self.set_exception_handler(self._on_exception)
        self.batches = 0
        self.handles_run = 0

    # ---- BaseEventLoop plumbing -------------------------------------------------
    def time(self):
        return self._vtime

    def _process_events(self, event_list):
        pass

    def _write_to_self(self):
        pass

    def add_reader(self, fd, callback, *args):
        self.readers[fd] = (callback, args)

    def remove_reader(self, fd):
        return self.readers.pop(fd, None) is not None

    def _on_exception(self, loop, context):
        exc = context.get("exception")
        self.exc_log.append((context.get("message", ""), repr(exc)))

    # ---- explorer interface -------------------------------------------------------
    def enter(self):
        events._set_running_loop(self)

    def leave(self):
        events._set_running_loop(None)

    def has_ready(self):
        return any(not h._cancelled for h in self._ready)

    def run_batch(self):
        """One loop iteration: run the handles that are ready now (and only those)."""
        ntodo = len(self._ready)
        for _ in range(ntodo):
            h = self._ready.popleft()
            if h._cancelled:
                continue
            self.handles_run += 1
            h._run()
        self.batches += 1
        self._vtime += 1e-9          # distinct iterations never create timers with equal deadlines

    def next_timer(self):
        """Earliest live deadline or None (cancelled heads are discarded first)."""
        while self._scheduled and self._scheduled[0]._cancelled:
            h = heapq.heappop(self._scheduled)
            h._scheduled = False
        if not self._scheduled:
            return None
        return self._scheduled[0]._when

    def fire_timers(self):
        """Advance the virtual clock to the next deadline; all timers due by then become ready."""
        when = self.next_timer()
        if when is None:
            return False
        if when > self._vtime:
            self._vtime = when
        end = self._vtime + self._clock_resolution
        while self._scheduled and self._scheduled[0]._when < end:
            h = heapq.heappop(self._scheduled)
            h._scheduled = False
            if not h._cancelled:
                self._ready.append(h)
        return True

    def inject(self, callback, *args):
        """An I/O callback reported by the (virtual) selector: appended to the ready queue."""
        self._ready.append(events.Handle(callback, args, self, None))

    def drain(self, limit=2000):
        n = 0
        while self._ready and n < limit:
            self.run_batch()
            n += 1

    def shutdown(self):
        """Cancel everything that is still pending and close the loop."""
        for _ in range(6):
            tasks = [t for t in asyncio.all_tasks(self) if not t.done()]
            if not tasks:
                break
            for t in tasks:
                t.cancel()
            self.drain()
        self._scheduled.clear()
        self._ready.clear()
        self.leave()
        try:
            self.close()
        except Exception:
            pass
