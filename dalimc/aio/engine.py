"""E3 engine: runs one schedule of a scenario on the virtual loop.

A *world* owns the loop, the real driver, a gateway model and the caller coroutines.  At
every iteration boundary the engine builds the menu of enabled events in canonical order
(1 run, 2 gateway deliveries, 3 caller starts / subscriber joins+leaves, 4 timer, 5 faults:
cancel, loss, return) and asks the chooser; index 0 is the default (sequential) schedule,
every other index is one deviation.  After an external event the menu is offered again at
the same boundary; `run` executes the batch; after `timer` only `run` is offered.
"""
import asyncio
import gc
import logging
KEEP_LOGGING = False        # set by the runner's "__trace__" shards: logging stays enabled down to TRACE (rendered, discarded)

from .vloop import VLoop

HORIZON = 4000
STUCK_AFTER = 12            # seconds of wall time for ONE execution (they take milliseconds): a coroutine that never yields
STUCK_AFTER_NEXT = 1.5      # ... once one execution of this process was stuck, the following ones are given up on much sooner
_stuck_seen = 0


class ExecutionStuck(Exception):
    """Raised (from a timer signal) inside code that has been running for STUCK_AFTER seconds without ever returning
    to the event loop - a busy loop.  asyncio stores it in the task, so the caller shows up as 'raised ExecutionStuck'."""


def _alarm(signum, frame):
    global _stuck_seen
    _stuck_seen += 1
    raise ExecutionStuck("no return to the event loop for %s s (busy loop?)" % (STUCK_AFTER if _stuck_seen == 1 else STUCK_AFTER_NEXT))


class Caller:
    """One application task: `factory(world)` returns the coroutine."""

    def __init__(self, name, factory, cancellable=False, start_enabled=lambda w: True):
        self.name, self.factory, self.cancellable = name, factory, cancellable
        self.start_enabled = start_enabled
        self.task = None
        self.started_at = None
        self.done_at = None
        self.cancelled_by_harness = False

    def outcome(self):
        t = self.task
        if t is None:
            return ("not-started",)
        if not t.done():
            return ("pending",)
        if t.cancelled():
            return ("cancelled",)
        e = t.exception()
        if e is not None:
            return ("raised", type(e).__name__, str(e)[:80])
        return ("returned", t.result())


class World:
    """Base class; scenarios subclass or compose.  Subclasses provide:
         build()            create driver/gateway, call driver.connect() etc. (loop is running-set)
         channels()         list of (label, has_pending(), deliver()) gateway delivery channels
         extra_events()     list of (label, enabled(), fire(), cost) for subscribers / loss / return
         finish()           observation dict at the end
    """

    def __init__(self):
        self.loop = None
        self.callers = []
        self.trace = []
        self.timer_budget = 50
        self.timers_fired = 0
        self.cancel_budget = 1
        self.late_timers = []          # trace positions of timer events that were chosen ahead of an enabled run / delivery / start

    def channels(self):
        return []

    def extra_events(self):
        return []

    def frozen(self):
        """True while a long linear phase runs in which no scheduling deviation is to be enumerated."""
        return False

    def timer_enabled(self):
        """Scenarios may keep the clock still during phases that are not under test (serial handshake)."""
        return True


def execute(make_world, chooser, trace=False):
    """Run one schedule.  Returns (world, status) with status in {quiescent, horizon}."""
    if not KEEP_LOGGING:
        logging.disable(logging.CRITICAL)      # the drivers log every injected fault; output is not an observation
    import signal
    import threading
    armed = threading.current_thread() is threading.main_thread()
    if armed:
        signal.signal(signal.SIGALRM, _alarm)
        # (repeating: a second busy loop in the same execution is interrupted as well)
        signal.setitimer(signal.ITIMER_REAL, STUCK_AFTER if not _stuck_seen else STUCK_AFTER_NEXT, STUCK_AFTER_NEXT)
    loop = VLoop()
    loop.enter()
    w = make_world()
    w.loop = loop
    status = "quiescent"
    try:
        w.build()
        steps = 0
        after_timer = False
        while True:
            menu = []
            if loop.has_ready():
                menu.append(("run", None))
            elif loop._ready:
                loop._ready.clear()        # only cancelled handles left
            if not after_timer:
                for label, pending, deliver in w.channels():
                    if pending():
                        menu.append((label, deliver))
                for i, c in enumerate(w.callers):
                    if c.task is None and c.start_enabled(w):
                        item = (f"start:{c.name}", (lambda c=c: _start(w, c)))
                        if getattr(w, "eager_start", False):
                            menu.insert(0, item)      # default schedule: all callers are started back to back
                        else:
                            menu.append(item)
                        break              # callers start in list order
                soft = []
                for label, enabled, fire, kind in w.extra_events():
                    if enabled():
                        (menu if kind == "event" else soft).append((label, fire))
                if loop.next_timer() is not None and w.timers_fired < w.timer_budget and w.timer_enabled():
                    menu.append(("timer", "TIMER"))
                for c in w.callers:
                    if c.cancellable and c.task is not None and not c.task.done() and w.cancel_budget > 0 \
                            and not c.cancelled_by_harness:
                        menu.append((f"cancel:{c.name}", (lambda c=c: _cancel(w, c))))
                menu.extend(soft)
            if not menu:
                break
            # faults ('soft' events and cancels) are never the default: if only faults remain, stop
            progress = [m for m in menu if not (m[0].startswith("cancel:") or m[0].startswith("fault:"))]
            if not progress:
                break
            costs = None
            if w.frozen():
                costs = [0] + [99] * (len(menu) - 1)       # linear tail: no deviations are enumerated here
            k = chooser.choose(len(menu), menu[0][0] if len(menu) == 1 else "|".join(m[0] for m in menu), costs)
            label, fn = menu[k]
            w.trace.append(label)
            steps += 1
            if label == "run":
                loop.run_batch()
                after_timer = False
            elif fn == "TIMER":
                if k != 0:                 # the timer overtook something that was enabled (a deviation)
                    w.late_timers.append(len(w.trace) - 1)
                loop.fire_timers()
                w.timers_fired += 1
                after_timer = True
            else:
                fn()
            if steps >= HORIZON:
                status = "horizon"
                break
        w.status = status
        w.final_time = loop.time()
        obs = w.finish()
    finally:
        if armed:
            signal.setitimer(signal.ITIMER_REAL, 0)
        try:
            loop.shutdown()
        finally:
            _collect()
    w.loop_exceptions = list(loop.exc_log)
    return w, obs


_frozen = False
_since = 0


def _collect():
    """Per-execution garbage (tasks, driver, loop - full of reference cycles) has been promoted to
    the oldest generation by the time the execution ends; only a full collection frees it.  The
    long-lived import image is frozen once so that full collections stay cheap."""
    global _frozen, _since
    if not _frozen:
        gc.collect()
        gc.freeze()
        _frozen = True
    _since += 1
    if _since >= 4:
        gc.collect()
        _since = 0
    else:
        gc.collect(1)


def _start(w, c):
    c.task = w.loop.create_task(c.factory(w))
    c.started_at = w.loop.time()


def _cancel(w, c):
    c.task.cancel()
    c.cancelled_by_harness = True
    w.cancel_budget -= 1
