"""C12 - event messages: scheme fields and instance-type resolution are exact.

E1: exhaustive enumeration of the 24-bit event space (bit 16 = 0) through the real decoder
against dalimc.spec.ref_codec.decode_event (IEC 62386-103 Table 3 + parts 301/303/304), of
device/instance frames under maps of every instance type built in every supported way, and
of retry_decode on every ambiguous event.
"""
from dalimc.core.runner import new_result, add_violation, observe, sample
from dalimc.spec import ref_codec as R

ID = "C12"
OPTIMISED_STRIDE = {"quick": 10, "thorough": 20}      # every k-th shard once more in an interpreter started with -O
TRACE_STRIDE = {"quick": 10, "thorough": 20}      # every k-th shard once more with logging enabled down to TRACE
LEVEL = "exploration"
ENGINE = "E1"
TECHNIQUE = "exhaustive enumeration of the event frame space and of map contents through the real decoder vs a reference event decoder"
RULE = ("all event-space frames (bit16=0) without a map; device/instance frames x maps {no entry, other instance only, "
        "type t for t in 0..31} built via int / DeviceShort / InstanceNumber / module arguments and via initial=; "
        "retry_decode of every ambiguous event vs direct decode; every sequence of <= 3 (thorough 4) registrations / clear() on one mapper "
        "(2 keys x 4 types x 3 argument forms) against a plain dict - the latest registration of a key is in force; distinct = distinct (class, scheme, map kind) observed")
ASSUMPTIONS = [
    "event scheme table and field positions from IEC 62386-103 Table 3; push-button codes from -301 Table 2; occupancy flag bits from -303 (upper six bits must be zero); light = 10-bit number (-304)",
    "instance types without an implementing class decode to UnknownEvent carrying type and data",
]
CHAIN_STRIDE = {'quick': 10, 'thorough': 25}      # every k-th shard is re-run in chains inside one process (non-initial process states)
BOUNDS = {"quick": "40 address-field values x all 2^16 lower halves without map; dev/inst: 6 shorts x 6 instance numbers x 1024 data x 34 map kinds x 4 construction forms (sampled forms on full data)",
          "thorough": "all 2^23 event frames without map; all 2^21 dev/inst frames x 6 types + no-entry + other-instance; all 32 types on a 2^16 slice; all construction forms"}

FORMS = ["int", "objs", "module", "initial"]
MODTYPES = {1: "pushbutton", 3: "occupancy", 4: "light"}


def shards(tier):
    out = []
    if tier == "quick":
        a7s = [0, 1, 2, 3, 4, 31, 32, 33, 62, 63, 64, 65, 67, 68, 95, 96, 97, 99, 100, 126, 127, 66, 98, 69, 101,
               5, 30, 94, 80, 112, 15, 16, 47, 48, 79, 111, 70, 102, 35, 36]
        for i in range(0, len(a7s), 2):
            out.append(("nomap", a7s[i:i + 2]))
        for t in list(range(32)) + ["noentry", "other"]:
            out.append(("map", t, [0, 1, 31, 32, 62, 63], [0, 1, 7, 16, 30, 31]))
    else:
        for a7 in range(128):
            out.append(("nomap", [a7]))
        for t in [1, 3, 4, 0, 31, 2, "noentry", "other"]:
            for s0 in range(0, 64, 8):
                out.append(("map", t, list(range(s0, s0 + 8)), list(range(32))))
        for t in range(32):
            out.append(("map", t, [0, 21, 42, 63], [0, 5, 10, 15, 20, 25, 30, 31]))
    out.append(("forms",))
    out.append(("occflags",))
    out.append(("userclasses",))
    for first in range(len(MAP_OPS)):
        out.append(("mapops", first, 3 if tier == "quick" else 4))
    return out


# operation alphabet on ONE mapper object: registrations of two keys with four types in every argument form, and clear()
MAP_KEYS = [(5, 9), (63, 31)]
MAP_OPS = [("add", k, t, f) for k in range(2) for t in (1, 3, 4, 6) for f in ("int", "objs", "module")] + [("clear",)] + \
    [("set", k, t) for k in range(2) for t in (1, 4)] + [("del", k) for k in range(2)]      # ... and edits of the live dict the mapper hands out as .mapping


def apply_map_op(m, ref, op):
    from dali.address import DeviceShort, InstanceNumber
    import importlib
    if op[0] == "clear":
        m.clear()
        ref.clear()
        return
    if op[0] == "set":
        m.mapping[MAP_KEYS[op[1]]] = op[2]
        ref[MAP_KEYS[op[1]]] = op[2]
        return
    if op[0] == "del":
        m.mapping.pop(MAP_KEYS[op[1]], None)
        ref.pop(MAP_KEYS[op[1]], None)
        return
    _, k, t, f = op
    s, i = MAP_KEYS[k]
    if f == "int":
        m.add_type(short_address=s, instance_number=i, instance_type=t)
    elif f == "objs":
        m.add_type(short_address=DeviceShort(s), instance_number=InstanceNumber(i), instance_type=t)
    else:
        it = importlib.import_module("dali.device." + MODTYPES[t]) if t in MODTYPES else t
        m.add_type(short_address=DeviceShort(s), instance_number=i, instance_type=it)
    ref[(s, i)] = t                 # reference model: a plain dict, the latest registration of a key is the one in force


def build_map(t, form, shorts, inums):
    """Instance map resolving every (short, inum) of the slice to type t, built via *form*."""
    from dali.device.helpers import DeviceInstanceTypeMapper
    from dali.address import DeviceShort, InstanceNumber
    import importlib
    if t == "noentry":
        return DeviceInstanceTypeMapper(), None
    if t == "other":
        m = DeviceInstanceTypeMapper()
        for s in shorts:
            for i in inums:
                m.add_type(short_address=s, instance_number=(i + 1) % 32 if (i + 1) % 32 not in inums else 8, instance_type=1)
                m.add_type(short_address=(s + 1) % 64 if (s + 1) % 64 not in shorts else 40, instance_number=i, instance_type=3)
        bad = [(s, i) for s in shorts for i in inums if (s, i) in m.mapping]
        for k in bad:
            del m.mapping[k]
        return m, None
    if form == "initial":
        return DeviceInstanceTypeMapper(initial={(s, i): t for s in shorts for i in inums}), t
    m = DeviceInstanceTypeMapper()
    for s in shorts:
        for i in inums:
            if form == "int":
                m.add_type(short_address=s, instance_number=i, instance_type=t)
            elif form == "objs":
                m.add_type(short_address=DeviceShort(s), instance_number=InstanceNumber(i), instance_type=t)
            elif form == "module":
                it = importlib.import_module("dali.device." + MODTYPES[t]) if t in MODTYPES else t
                m.add_type(short_address=DeviceShort(s), instance_number=i, instance_type=it)
    return m, t


def check_event(res, v, dmap, maptype, mk, from_frame, FF, key="decode", case=None):
    case = case or {"t": key, "v": v, "map": mk}
    try:
        d = from_frame(FF(24, v), dev_inst_map=dmap)
        got = R.describe(d)
        s = str(d)
    except Exception as e:
        add_violation(res, f"C12:{key}-raises", f"event frame {v:#08x} map={mk}: {e!r}", case)
        return None, None
    exp = R.decode24(v, maptype)
    if got != exp:
        add_violation(res, f"C12:{key}:{exp[1]}", f"event frame {v:#08x} map={mk}: decoded {got}, reference {exp}", case)
    if d.frame.as_integer != v:
        add_violation(res, f"C12:{key}-frame", f"event frame {v:#08x}: decoded object carries {d.frame.as_integer:#08x}", case)
    return d, got


class Kept:
    """Events decoded earlier are kept and looked at again after later decodes: a decoded event is a value - its frame,
    fields and (for an ambiguous one) its retry must not change because OTHER events were decoded afterwards."""

    def __init__(self, res):
        self.res, self.items = res, []

    def add(self, v, d, got, dmap=None, amb=None):
        for (v0, d0, got0, dmap0, amb0) in self.items:
            case = {"t": "kept", "v": v0, "later": v}
            if d0 is not None and (d0.frame.as_integer != v0 or R.describe(d0) != got0):
                add_violation(self.res, "C12:earlier-event-changed", f"event decoded from {v0:#08x} shows frame {d0.frame.as_integer:#08x} / {R.describe(d0)} "
                              f"after {v:#08x} was decoded (was {got0})", case)
            if amb0 is not None and dmap0 is not None:
                r = amb0.retry_decode(dmap0)
                if amb0.frame.as_integer != v0 or (r is not None and (r.frame.as_integer != v0 or (d0 is not None and R.describe(r) != got0))):
                    add_violation(self.res, "C12:earlier-event-changed", f"ambiguous event kept from {v0:#08x}: after {v:#08x} was decoded its frame is "
                                  f"{amb0.frame.as_integer:#08x} and retry_decode gives {r}", case)
        self.items.append((v, d, got, dmap, amb))
        if len(self.items) > 2:
            self.items.pop(0)


def run_shard(shard):
    from dali.command import from_frame
    from dali.frame import ForwardFrame as FF
    from dali.device.general import AmbiguousInstanceType
    res = new_result()
    kept = Kept(res)
    k = shard[0]
    if k == "nomap":
        for a7 in shard[1]:
            for low in range(65536):
                v = (a7 << 17) | low
                d, got = check_event(res, v, None, "nomap", "nomap", from_frame, FF)
                if got:
                    res["distinct"].add((got[1], R.event_scheme(v)))
                    if low % 97 == 0 or (low & 0x3FF) < 2:
                        kept.add(v, d, got)
            res["evaluations"] += 65536
        sample(res, {"nomap_address_fields": shard[1], "frames_each": 65536})
    elif k == "map":
        _, t, shorts, inums = shard
        dmap, maptype = build_map(t, "int", shorts, inums)
        nomap_empty, _ = build_map("noentry", "int", shorts, inums)
        snap = dict(dmap.mapping)
        n = 0
        for s in shorts:
            for i in inums:
                for data in range(1024):
                    v = (s << 17) | (1 << 15) | (i << 10) | data
                    d, got = check_event(res, v, dmap, maptype, str(t), from_frame, FF, "map")
                    n += 1
                    if got:
                        res["distinct"].add((got[1], "device_instance", str(t)))
                    # retry_decode of the ambiguous decode must equal the direct decode
                    amb = from_frame(FF(24, v), dev_inst_map=None)
                    if type(amb) is not AmbiguousInstanceType:
                        add_violation(res, "C12:not-ambiguous", f"{v:#08x} without map decoded as {type(amb).__name__}", {"t": "map", "v": v, "map": "nomap"})
                        continue
                    try:
                        r = amb.retry_decode(dmap)
                    except Exception as e:
                        add_violation(res, "C12:retry-raises", f"retry_decode({v:#08x}, map {t}): {e!r}", {"t": "retry", "v": v, "map": str(t)})
                        continue
                    if maptype is None:
                        if r is not None:
                            add_violation(res, "C12:retry-without-entry", f"retry_decode without a map entry returned {r}", {"t": "retry", "v": v, "map": str(t)})
                    else:
                        if r is None or d is None or type(r) is not type(d) or R.describe(r) != got or str(r) != str(d) \
                                or r.frame.as_integer != v:
                            add_violation(res, "C12:retry-differs", f"retry_decode({v:#08x}, type {t}) -> {r}, direct decode {d}", {"t": "retry", "v": v, "map": str(t)})
                    if data % 61 == 0 and maptype is not None and d is not None:
                        kept.add(v, d, got, dmap, amb)
                    if data % 256 == 3:
                        r2 = amb.retry_decode(nomap_empty)
                        if r2 is not None:
                            add_violation(res, "C12:retry-without-entry", "retry with empty map returned an event", {"t": "retry", "v": v, "map": "noentry"})
        res["evaluations"] += 2 * n
        if dmap.mapping != snap:
            add_violation(res, "C12:map-mutated", "decoding changed the map", {"t": "map", "v": 0x8000, "map": str(t)})
        sample(res, {"map_type": t, "shorts": shorts[:4], "inums": inums[:4], "frames": n})
    elif k == "userclasses":
        # an application that declares event classes of its own (an abstract vendor base without an instance type - the shape
        # of the library's own _PushbuttonEvent -, a concrete class for an unassigned type, a subclass of UnknownEvent) and
        # then decodes: the library's frames decode as before, device/instance frames without a map entry stay ambiguous
        from dali.device import general as DG
        from dali.device.helpers import DeviceInstanceTypeMapper

        class _VendorEvent(DG._Event):
            pass

        class VendorUnknown(DG.UnknownEvent):
            pass
        empty = DeviceInstanceTypeMapper()
        noentry = DeviceInstanceTypeMapper()
        noentry.add_type(short_address=1, instance_number=7, instance_type=1)
        full = DeviceInstanceTypeMapper()
        for s_ in (0, 5, 63):
            for i_ in (0, 9, 31):
                full.add_type(short_address=s_, instance_number=i_, instance_type=3)
        n = 0
        for s_ in (0, 5, 63):
            for i_ in (0, 9, 31):
                for data in (0, 1, 5, 0x155, 1023):
                    v = (s_ << 17) | (1 << 15) | (i_ << 10) | data
                    for mk, dmap, mt in (("nomap", None, "nomap"), ("empty", empty, None), ("noentry", noentry, None), (3, full, 3)):
                        d, got = check_event(res, v, dmap, mt, mk, from_frame, FF, "userclasses", {"t": "userclasses", "v": v, "map": str(mk)})
                        n += 1
                        if d is not None and mt in ("nomap", None):
                            r2 = d.retry_decode(full) if hasattr(d, "retry_decode") else None
                            if r2 is None or R.describe(r2) != R.decode24(v, 3):
                                add_violation(res, "C12:userclasses:retry", f"frame {v:#08x} map={mk}: retry_decode with a full map gives {r2}", {"t": "userclasses", "v": v, "map": str(mk)})
        for v in (0x0A0402, 0x0A0C0B, 0x0A1155, 0x8E0401, 0xC00C10, 0xC08401, 0x0A2523, 0x000400):
            check_event(res, v, None, "nomap", "nomap", from_frame, FF, "userclasses", {"t": "userclasses", "v": v, "map": "nomap"})
            n += 1
        res["evaluations"] += n
        res["distinct"].add(("userclasses", "ok"))
        sample(res, {"user_declared_event_classes": ["_VendorEvent(_Event)", "VendorUnknown(UnknownEvent)"], "decodes": n})
    elif k == "occflags":
        # all 16 occupancy flag tuples x 5 schemes x sources of the flag tuple (literal strings, strings built at run time, a
        # pickled and a copied tuple): the event built from the tuple carries the 10 bits the flags denote, and decoding that
        # frame (directly, through a map, via retry_decode) reports the same tuple
        import copy
        import pickle
        from dali.device.occupancy import OccupancyEvent
        from dali.device.helpers import DeviceInstanceTypeMapper
        ED = OccupancyEvent.EventData
        schemes = {"device": dict(short_address=5), "device_instance": dict(short_address=5, instance_number=9), "device_group": dict(device_group=7),
                   "instance": dict(instance_number=30), "instance_group": dict(instance_group=11)}
        sources = {"literal": lambda t: t, "runtime-string": lambda t: ED(t[0], t[1], t[2], "".join(list(t[3]))),
                   "pickle": lambda t: pickle.loads(pickle.dumps(ED(t[0], t[1], t[2], "".join(list(t[3]))))),
                   "deepcopy": lambda t: copy.deepcopy(ED(t[0], t[1], t[2], t[3].upper().lower())), "plain-tuple->EventData": lambda t: ED(*tuple(t))}
        m = DeviceInstanceTypeMapper()
        m.add_type(short_address=5, instance_number=9, instance_type=3)
        for bits in range(16):
            lit = ED(movement=bool(bits & 1), occupied=bool(bits & 2), repeat=bool(bits & 4), sensor_type="movement" if bits & 8 else "presence")
            for sname, src in sources.items():
                for sch, kw in schemes.items():
                    res["evaluations"] += 1
                    case = {"t": "occflags", "bits": bits, "source": sname, "scheme": sch}
                    try:
                        ev = OccupancyEvent(data=src(lit), **kw)
                        info = ev.frame.as_integer & 0x3FF
                    except Exception as e:
                        add_violation(res, "C12:occupancy-flags:construct-raises", f"OccupancyEvent from flags {tuple(lit)} ({sname}, {sch}): {e!r}", case)
                        continue
                    if info != bits:
                        add_violation(res, "C12:occupancy-flags:event-information", f"OccupancyEvent from flags {tuple(lit)} ({sname}, {sch}): frame carries event "
                                      f"information {info:#06b}, the flags denote {bits:#06b}", case)
                    dm = m if sch == "device_instance" else None
                    d = from_frame(FF(24, ev.frame.as_integer), dev_inst_map=dm)
                    if type(d) is not OccupancyEvent or tuple(d.event_data) != tuple(lit) or tuple(ev.event_data) != tuple(lit):
                        add_violation(res, "C12:occupancy-flags:decode", f"OccupancyEvent from flags {tuple(lit)} ({sname}, {sch}): decoding its frame gives "
                                      f"{type(d).__name__} {getattr(d, 'event_data', None)}", case)
                    if sch == "device_instance":
                        amb = from_frame(FF(24, ev.frame.as_integer))
                        r = amb.retry_decode(m)
                        if r is None or tuple(r.event_data) != tuple(lit):
                            add_violation(res, "C12:occupancy-flags:retry", f"flags {tuple(lit)} ({sname}): retry_decode gives {r}", case)
                    res["distinct"].add(("occflags", sname, sch))
        sample(res, {"occupancy_flag_tuples": 16, "sources": list(sources), "schemes": list(schemes)})
    elif k == "forms":
        # all ways of building the same map must behave identically (get_type and decode)
        from dali.address import DeviceShort, InstanceNumber
        shorts, inums = [0, 5, 63], [0, 9, 31]
        for t in range(32):
            maps = {f: build_map(t, f, shorts, inums)[0] for f in FORMS if f != "module" or True}
            ref = {(s, i): t for s in shorts for i in inums}
            for f, m in maps.items():
                case = {"t": "forms", "type": t, "form": f}
                res["evaluations"] += 1
                if dict(m.mapping) != ref:
                    add_violation(res, f"C12:map-form:{f}", f"map built via {f} for type {t}: {m.mapping}", case)
                for s in shorts + [1]:
                    for i in inums + [2]:
                        exp = ref.get((s, i))
                        g = [m.get_type(short_address=s, instance_number=i),
                             m.get_type(short_address=DeviceShort(s), instance_number=InstanceNumber(i)),
                             m.get_type(short_address=DeviceShort(s), instance_number=i)]
                        if g != [exp] * 3:
                            add_violation(res, f"C12:get_type:{f}", f"get_type({s},{i}) via {f} -> {g}, expected {exp}", case)
                for data in (0, 1, 2, 5, 15, 16, 511, 1023):
                    v = (5 << 17) | (1 << 15) | (9 << 10) | data
                    d, got = check_event(res, v, m, t, f"{t}/{f}", from_frame, FF, "forms")
                    if got:
                        res["distinct"].add((got[1], "form", f))
                m.clear()
                if m.mapping != {} or m.get_type(short_address=5, instance_number=9) is not None:
                    add_violation(res, "C12:clear", "clear() left entries", case)
        # clear() empties THIS mapper: another mapper built from the same initial table, and a table the caller kept,
        # still hold their entries afterwards
        from dali.device.helpers import DeviceInstanceTypeMapper as DM
        for t in (1, 3, 4, 0):
            table = {(5, 9): t, (6, 1): 1}
            m1, m2 = DM(initial=table), DM(initial=table)
            kept = dict(m2.mapping)
            m1.clear()
            res["evaluations"] += 1
            if m1.get_type(short_address=5, instance_number=9) is not None or dict(m1.mapping) != {}:
                add_violation(res, "C12:clear", "clear() left entries", {"t": "forms", "type": t, "form": "shared-initial"})
            v = (5 << 17) | (1 << 15) | (9 << 10) | 2
            d, got = check_event(res, v, m2, t, f"{t}/shared-initial-after-clear-of-the-other", from_frame, FF, "forms")
            if m2.get_type(short_address=5, instance_number=9) != t or dict(m2.mapping) != kept:
                add_violation(res, "C12:clear-affects-another-mapper", f"two mappers built from one initial table: clear() on the first emptied the second "
                              f"({dict(m2.mapping)}, was {kept})", {"t": "forms", "type": t, "form": "shared-initial"})
        sample(res, {"forms": FORMS, "types": "0..31"})
    elif k == "mapops":
        # every sequence of <= depth operations on one mapper (first operation fixed by the shard) against a plain dict;
        # after every operation: mapping, get_type and the decode of one frame per key must follow the reference
        import itertools
        from dali.device.helpers import DeviceInstanceTypeMapper
        _, first, depth = shard
        for L in range(1, depth + 1):
            for rest in itertools.product(range(len(MAP_OPS)), repeat=L - 1):
                ops = [MAP_OPS[first]] + [MAP_OPS[j] for j in rest]
                m, ref = DeviceInstanceTypeMapper(), {}
                case = {"t": "mapops", "ops": [list(o) for o in ops]}
                for n, op in enumerate(ops):
                    try:
                        apply_map_op(m, ref, op)
                    except Exception as e:
                        add_violation(res, "C12:mapops-raises", f"{ops[:n + 1]}: {e!r}", case)
                        break
                    if n < len(ops) - 1 and L > 1 and n < L - 2:
                        continue        # prefixes were checked as shorter sequences
                    if dict(m.mapping) != ref:
                        add_violation(res, "C12:mapops-mapping", f"after {ops[:n + 1]}: mapping {dict(m.mapping)}, reference {ref}", case)
                    for (s_, i_) in MAP_KEYS:
                        exp = ref.get((s_, i_))
                        g = m.get_type(short_address=s_, instance_number=i_)
                        if g != exp:
                            add_violation(res, "C12:mapops-get_type", f"after {ops[:n + 1]}: get_type({s_},{i_}) -> {g}, reference {exp}", case)
                        for data in (2, 0x155):
                            v = (s_ << 17) | (1 << 15) | (i_ << 10) | data
                            d, got = check_event(res, v, m, exp, f"ops{len(ops)}", from_frame, FF, "mapops", case)
                            if got:
                                res["distinct"].add((got[1], "mapops", exp))
                            amb = from_frame(FF(24, v), dev_inst_map=None)
                            r = amb.retry_decode(m)
                            if (r is None) != (exp is None) or (r is not None and (d is None or R.describe(r) != got)):
                                add_violation(res, "C12:mapops-retry", f"after {ops[:n + 1]}: retry_decode({v:#08x}) -> {r}, direct decode {d}", case)
                res["evaluations"] += 1
        sample(res, {"mapops_first": list(MAP_OPS[first]), "depth": depth})
    return res


def replay(case):
    from dali.command import from_frame
    from dali.frame import ForwardFrame as FF
    res = new_result()
    t = case["t"]
    v = case.get("v", 0)
    if t == "decode":
        check_event(res, v, None, "nomap", "nomap", from_frame, FF)
    elif t in ("map", "retry"):
        s, i = (v >> 17) & 0x3F, (v >> 10) & 0x1F
        mk = case["map"]
        mt = int(mk) if mk.lstrip("-").isdigit() else mk
        if mt == "nomap":
            mt = "noentry"
        return run_shard(("map", mt, [s], [i]))["violations"]
    elif t == "kept":
        s0, i0 = (v >> 17) & 0x3F, (v >> 10) & 0x1F
        vs = run_shard(("map", 0, [s0, (case["later"] >> 17) & 0x3F], [i0, (case["later"] >> 10) & 0x1F]))["violations"]
        vs += run_shard(("nomap", [v >> 17, case["later"] >> 17]))["violations"]
        return [x for x in vs if x["key"] == "C12:earlier-event-changed"]
    elif t == "mapops":
        ops = [tuple(o) for o in case["ops"]]
        vs = run_shard(("mapops", MAP_OPS.index(ops[0]), len(ops)))["violations"]
        return [x for x in vs if x["case"].get("ops") == case["ops"]] or vs
    else:
        return run_shard(("forms",))["violations"]
    if case.get("t") == "userclasses":
        return run_shard(("userclasses",))["violations"]
    if case.get("t") == "occflags":
        return run_shard(("occflags",))["violations"]
    return res["violations"]
