"""C03 - emitted frames and command flags conform to the IEC 62386 tables.

E1: for every row of the literal reference table and every legal argument, the frame built by
the library constructor is compared bit for bit with the table-driven reference encoder, and
the reference frame is decoded by the library and compared with the row; per-class flags
(send-twice, answer / no answer, yes-no vs 8-bit, device type) are compared with the row.
"""
from dalimc.core.runner import new_result, add_violation, observe, sample
from dalimc.spec import ref_codec as R
from dalimc.spec import iec62386_tables as T
from dalimc.spec.responses import RESPONSES
from . import _cmdspace as S

ID = "C03"
OPTIMISED_STRIDE = {"quick": 12, "thorough": 12}      # every k-th shard once more in an interpreter started with -O
TRACE_STRIDE = {"quick": 12, "thorough": 12}      # every k-th shard once more with logging enabled down to TRACE
LEVEL = "exploration"
ENGINE = "E1"
TECHNIQUE = "exhaustive enumeration of table rows x legal arguments: library constructor vs independent table-driven encoder, and reference frame -> library decoder"
RULE = ("every row of the reference command table x every destination / instance byte / parameter (tier-dependent "
        "for instance bytes and two-byte parameters) in both directions, all event classes x 5 schemes x fields x data, "
        "per-class flags, the reverse inclusion (every library command class has a row), and one frame per row decoded in a fresh "
        "interpreter that imported the packages dali.gear / dali.device only; "
        "distinct = distinct (module, class) pairs exercised")
ASSUMPTIONS = [
    "rows tagged 'std' (parts 102, 103, 207, 209, 301, 303, 304) are transcribed from the standard and are an independent oracle; rows tagged 'pinned' (parts 202, 205, 206 and three send-twice flags) are a regression oracle only",
    "the reference encoder implements the address-byte / selector-bit / instance-byte / event-scheme layouts of IEC 62386-102 7.2 and -103 7.2 directly on integers",
]
CHAIN_STRIDE = {'quick': 6, 'thorough': 6}      # every k-th shard is re-run in chains inside one process (non-initial process states)
BOUNDS = {"quick": "all rows, all destinations, instance bytes at kind boundaries (27 of 195), 2-byte specials on a 20x20 grid, events on boundary fields",
          "thorough": "all rows x full argument product (195 instance bytes, 256x256 two-byte parameters, all event fields and data)"}


def shards(tier):
    out = []
    rows = list(S.all_rows())
    for i in range(0, len(rows), 6):
        out.append(("rows", i, i + 6, tier))
    out.append(("dapc",))
    for ec in S.EVENT_CLASSES:
        for sch in S.EVENT_SCHEMES:
            out.append(("event", ec[1], sch, tier, ec[0], ec[2]))
    out.append(("inclusion",))
    out.append(("pkgimport",))
    return out


def check_flags(res, tab, r):
    from dali import command
    mod, name = r[0], r[1]
    cls = S.lib_class(mod, name)
    case = {"t": "flags", "mod": mod, "name": name}
    tw = {"GEAR_STD": 5, "GEAR_SPECIAL": 4, "DEV_STD": 3, "DEV_INST": 3, "DEV_SPECIAL": 5}[tab]
    ans = r[tw + 1]
    if bool(cls.sendtwice) != r[tw]:
        add_violation(res, f"C03:sendtwice:{mod}.{name}", f"{mod}.{name}.sendtwice={cls.sendtwice}, table says {r[tw]}", case)
    if (cls.response is None) != (ans is None):
        add_violation(res, f"C03:answer-expected:{mod}.{name}", f"{mod}.{name}.response={cls.response}, table answer {ans}", case)
    elif ans is not None:
        kind = RESPONSES[ans]["kind"]
        is_yesno = issubclass(cls.response, command.YesNoResponse)
        if is_yesno != (kind == "yesno"):
            add_violation(res, f"C03:answer-kind:{mod}.{name}", f"{mod}.{name} answer kind: library {cls.response.__name__}, table {ans} ({kind})", case)
        elif cls.response.__name__ != ans:
            add_violation(res, f"C03:answer-class:{mod}.{name}", f"{mod}.{name}.response={cls.response.__name__}, table {ans}", case)
    dt = r[4] if tab == "GEAR_STD" else 0
    if cls.devicetype != dt:
        add_violation(res, f"C03:devicetype:{mod}.{name}", f"{mod}.{name}.devicetype={cls.devicetype}, table {dt}", case)
    bits = 16 if tab.startswith("GEAR") else 24
    if cls._framesize != bits:
        add_violation(res, f"C03:framesize:{mod}.{name}", f"{mod}.{name}._framesize={cls._framesize}", case)
    observe(res, "rows_" + r[-1])


def check_desc(res, desc, dt, from_frame, FF):
    mod, name, args = desc
    case = {"t": "desc", "desc": [mod, name, list(map(lambda a: list(a) if isinstance(a, tuple) else a, args))], "dt": dt}
    bits, val = R.encode(desc)
    try:
        c = S.construct(desc)
    except Exception as e:
        add_violation(res, f"C03:construct-raises:{mod}.{name}", f"{desc}: constructor raised {e!r}", case)
        return
    f = c.frame
    # the per-command flags as an OBJECT carries them (drivers read cmd.sendtwice / cmd.devicetype / cmd.response on instances)
    row_ = R.BY_NAME.get((mod, name))
    if row_ is not None:
        tab_, r_ = row_
        tw_ = {"GEAR_STD": 5, "GEAR_SPECIAL": 4, "DEV_STD": 3, "DEV_INST": 3, "DEV_SPECIAL": 5}[tab_]
        want = (bool(r_[tw_]), r_[tw_ + 1] is None, r_[4] if tab_ == "GEAR_STD" else 0)
        for what, obj in (("built", c),):
            have = (bool(obj.sendtwice), obj.response is None, obj.devicetype)
            if have != want:
                add_violation(res, f"C03:instance-flags:{mod}.{name}", f"{what} object {desc}: (sendtwice, no answer, devicetype) = {have}, table {want}", case)
    if len(f) != bits or f.as_integer != val:
        add_violation(res, f"C03:frame-bits:{mod}.{name}", f"{desc}: library frame {len(f)}/{f.as_integer:#x}, standard {bits}/{val:#x}", case)
    if c.is_query != (c.response is not None):
        add_violation(res, f"C03:is_query:{mod}.{name}", "is_query disagrees with response", case)
    try:
        d = from_frame(FF(bits, val), devicetype=dt)
        got = R.describe(d)
    except Exception as e:
        add_violation(res, f"C03:decode-raises:{mod}.{name}", f"reference frame {val:#x} of {desc}: {e!r}", case)
        return
    if got != desc:
        add_violation(res, f"C03:decode-name:{mod}.{name}", f"standard frame {bits}/{val:#x} (dt={dt}) decodes to {got}, table says {desc}", case)
    elif row_ is not None:
        have = (bool(d.sendtwice), d.response is None, d.devicetype)
        if have != want:
            add_violation(res, f"C03:instance-flags:{mod}.{name}", f"decoded object {desc}: (sendtwice, no answer, devicetype) = {have}, table {want}", case)


def run_shard(shard):
    from dali.command import from_frame, Command
    from dali.frame import ForwardFrame as FF
    res = new_result()
    k = shard[0]
    if k == "rows":
        rows = list(S.all_rows())[shard[1]:shard[2]]
        for tab, r in rows:
            try:
                S.lib_class(r[0], r[1])
            except Exception as e:
                add_violation(res, f"C03:missing-class:{r[0]}.{r[1]}", f"table row {r[0]}.{r[1]} has no library class: {e!r}",
                              {"t": "flags", "mod": r[0], "name": r[1]})
                continue
            check_flags(res, tab, r)
            dt = r[4] if tab == "GEAR_STD" else 0
            n = 0
            for desc in S.row_descriptors(tab, r, shard[3]):
                check_desc(res, desc, dt, from_frame, FF)
                n += 1
                if tab == "GEAR_SPECIAL" and n % 4 == 1:
                    # a special command means the same whatever ENABLE DEVICE TYPE preceded it (IEC 62386-102 Table 16)
                    for dt2 in (1, 6, 8, 255):
                        check_desc(res, desc, dt2, from_frame, FF)
            res["evaluations"] += n
            res["distinct"].add((r[0], r[1]))
        sample(res, {"rows": [f"{r[0]}.{r[1]}" for _, r in rows]})
    elif k == "dapc":
        for a in R.ALL_GEAR_ADDRS:
            for p in range(256):
                check_desc(res, ("gear.general", "DAPC", (a, p)), 0, from_frame, FF)
                if p % 16 in (0, 15) or p in (223, 224):
                    for dt2 in (1, 6, 8, 255):              # ... and so does a direct arc power command
                        check_desc(res, ("gear.general", "DAPC", (a, p)), dt2, from_frame, FF)
                res["evaluations"] += 1
        from dali.gear.general import DAPC
        from dali.address import GearShort
        for word, p in (("OFF", 0), ("MASK", 255)):
            c = DAPC(GearShort(3), word)
            if c.frame.as_integer != (3 << 9) | p:
                add_violation(res, "C03:dapc-word", f"DAPC(3,{word}) -> {c.frame.as_integer:#x}", {"t": "dapc"})
        if DAPC.sendtwice or DAPC.response is not None:
            add_violation(res, "C03:dapc-flags", "DAPC flags", {"t": "dapc"})
        # destinations under every PUBLIC NAME the address module offers for them (the Gear* classes and the legacy names
        # without prefix): IEC 62386-102 table 1 address byte 0AAAAAAS / 100AAAAS / 1111111S / 1111110S
        import dali.address as _A
        from dali.gear.general import Off, QueryStatus
        table1 = {"Short": ((5,), 5), "Group": ((5,), 0x40 | 5), "Broadcast": ((), 0x7F), "BroadcastUnaddressed": ((), 0x7E)}
        for base, (args, a7) in table1.items():
            for nm in (base, "Gear" + base):
                cls = getattr(_A, nm, None)
                if cls is None:
                    continue                     # (a name the library does not offer is nothing to check)
                for mk, want in ((lambda d: Off(d), (a7 << 9) | 0x100), (lambda d: QueryStatus(d), (a7 << 9) | 0x190), (lambda d: DAPC(d, 128), (a7 << 9) | 128)):
                    res["evaluations"] += 1
                    try:
                        got = mk(cls(*args)).frame.as_integer
                    except Exception as e:
                        got = repr(e)
                    if got != want:
                        add_violation(res, f"C03:destination-by-name:{nm}", f"a command addressed to dali.address.{nm}{args} is emitted as "
                                      f"{got if isinstance(got, str) else hex(got)}, IEC 62386-102 table 1 assigns {want:#06x}", {"t": "dapc"})
        res["distinct"].add(("gear.general", "DAPC"))
        sample(res, {"dapc": "82 destinations x 256 levels"})
    elif k == "event":
        _, name, sch, tier = shard[:4]
        mod, itype, code = shard[4], shard[5], None
        if name != "UnknownEvent":
            mod, _, itype, code = next(e for e in S.EVENT_CLASSES if e[1] == name)
        from dali.device.helpers import DeviceInstanceTypeMapper
        for fields in S.event_field_space(sch, tier):
            for data in S.event_data_space(name, tier):
                v = S.event_expected(mod, name, itype, code, sch, fields, data)
                case = {"t": "event", "name": name, "scheme": sch, "fields": fields, "data": data, "mod": mod, "itype": itype}
                try:
                    c = S.construct_event(mod, name, fields, data, "int", itype)
                except Exception as e:
                    add_violation(res, f"C03:event-construct:{name}", f"{case}: {e!r}", case)
                    continue
                if c.frame.as_integer != v or len(c.frame) != 24:
                    add_violation(res, f"C03:event-bits:{name}:{sch}", f"{name} {sch} {fields} data={data}: {c.frame.as_integer:#08x}, standard {v:#08x}", case)
                m = None
                if sch == "device_instance":
                    m = DeviceInstanceTypeMapper()
                    m.add_type(short_address=fields["short"], instance_number=fields["inum"], instance_type=itype)
                d = from_frame(FF(24, v), dev_inst_map=m)
                exp = R.decode_event(v, itype if sch == "device_instance" else "nomap")
                if R.describe(d) != exp or exp[1] != name:
                    add_violation(res, f"C03:event-decode:{name}:{sch}", f"standard event frame {v:#08x} decodes to {R.describe(d)}, reference {exp}", case)
                if c.sendtwice or c.response is not None:
                    add_violation(res, f"C03:event-flags:{name}", "an event must not be send-twice / expect an answer", case)
                res["evaluations"] += 1
        res["distinct"].add((mod, name, sch))
        sample(res, {"event": name, "scheme": sch})
    elif k == "pkgimport":
        # a FRESH interpreter that imports only the packages (dali.gear, dali.device) - as an application or a driver does -
        # must decode every table row and every event type: the decoders register themselves on import
        import json
        import subprocess
        import sys
        from dalimc.core import repo
        probes = []
        for tab, r in S.all_rows():
            desc = next(iter(S.row_descriptors(tab, r, "quick")))
            bits, val = R.encode(desc)
            probes.append([bits, val, (r[4] if tab == "GEAR_STD" else 0), r[0], r[1]])
        for ec in S.EVENT_CLASSES:
            if ec[1] == "UnknownEvent":
                continue
            v = S.event_expected(ec[0], ec[1], ec[2], ec[3], "instance", {"inum": 3}, 5 if ec[3] is None else None)
            probes.append([24, v, 0, ec[0], ec[1]])
        script = ("import sys, json\n"
                  "import dali.gear, dali.device\n"
                  "from dali.command import from_frame\n"
                  "from dali.frame import ForwardFrame\n"
                  "out = []\n"
                  "for bits, val, dt, mod, name in json.load(sys.stdin):\n"
                  "    c = from_frame(ForwardFrame(bits, val), devicetype=dt)\n"
                  "    out.append([type(c).__module__, type(c).__name__])\n"
                  "json.dump(out, sys.stdout)\n")
        p = subprocess.run([sys.executable, "-c", script], input=json.dumps(probes), capture_output=True, text=True,
                           env={"PYTHONPATH": repo.REPO, "PATH": "/usr/bin:/bin", "PYTHONHASHSEED": "0"}, timeout=120)
        if p.returncode != 0:
            add_violation(res, "C03:package-import:fails", f"import dali.gear, dali.device + decode failed: {p.stderr[-300:]}", {"t": "pkgimport"})
        else:
            for (bits, val, dt, mod, name), (gm, gn) in zip(probes, json.loads(p.stdout)):
                res["evaluations"] += 1
                if (gm, gn) != ("dali." + mod, name):
                    add_violation(res, f"C03:package-import:{mod}.{name}",
                                  f"after 'import dali.gear, dali.device' only, the table frame {bits}/{val:#x} (dt {dt}) of {mod}.{name} decodes to {gm}.{gn}",
                                  {"t": "pkgimport"})
            res["distinct"].add(("pkgimport", len(probes)))
        sample(res, {"package_import_probe_frames": len(probes)})
    elif k == "inclusion":
        ev = {(e[0], e[1]) for e in S.EVENT_CLASSES}
        for c in Command._commands:
            key = (c.__module__.replace("dali.", "", 1), c.__name__)
            res["evaluations"] += 1
            if key in R.BY_NAME or key in S.GENERIC or key in ev:
                res["distinct"].add(key)
                continue
            add_violation(res, f"C03:unclassified-class:{key[0]}.{key[1]}", f"library command class {key} has no row in the reference table",
                          {"t": "inclusion", "cls": list(key)})
        sample(res, {"inclusion": len(Command._commands)})
    return res


def replay(case):
    from dali.command import from_frame
    from dali.frame import ForwardFrame as FF
    res = new_result()
    t = case["t"]
    if t == "desc":
        mod, name, args = case["desc"]
        args = tuple(tuple(a) if isinstance(a, list) else a for a in args)
        check_desc(res, (mod, name, args), case["dt"], from_frame, FF)
    elif t == "flags":
        tab, r = R.BY_NAME[(case["mod"], case["name"])]
        try:
            S.lib_class(r[0], r[1])
            check_flags(res, tab, r)
        except AttributeError as e:
            add_violation(res, f"C03:missing-class:{r[0]}.{r[1]}", repr(e), case)
    elif t == "dapc":
        return run_shard(("dapc",))["violations"]
    elif t == "event":
        return run_shard(("event", case["name"], case["scheme"], "thorough", case.get("mod", ""), case.get("itype")))["violations"]
    elif t == "pkgimport":
        return run_shard(("pkgimport",))["violations"]
    else:
        return run_shard(("inclusion",))["violations"]
    return res["violations"]
