"""C16 - drivers pair each command with its own answer, typed by the command.

E3: asyncio drivers (HID Tridonic, HID hasseb, LUBA, SCI) on the virtual loop, 1-3 callers
x commands x bus outcomes, all schedules within d deviations (report delivery, caller start,
timers = late answers).  E2-style scripted gateways for the synchronous drivers of the
statement (daliserver client, ATX LED hat): every command kind x every conforming reply.
"""
import itertools

from dalimc.core.runner import new_result, add_violation, observe, sample
from dalimc.core.explorer import explore
from dalimc.aio.engine import execute, Caller

ID = "C16"
OPTIMISED_STRIDE = {"quick": 12, "thorough": 24}      # every k-th shard once more in an interpreter started with -O
TRACE_STRIDE = {"quick": 8, "thorough": 16}      # every k-th shard once more with logging enabled down to TRACE
LEVEL = "model_checking"
ENGINE = "E3"
TECHNIQUE = "controlled-scheduler exploration (deviation-bounded) of the real asyncio drivers against gateway models that keep ground truth per command; scripted-gateway enumeration for the synchronous drivers"
RULE = ("scenario = driver x 1-3 callers, each (command kind, bus outcome) with kinds {non-query, yes/no, numeric, bitmap, generic, "
        "device-type query, send-twice, 24-bit query, 24-bit send-twice} and outcomes {silent, 0, 1, 0x42, 254, 255, framing error}; "
        "all schedules with <= d deviations (a timer deviation = the answer arrives late); Tridonic also two sends in flight inside "
        "one transaction and duplicate reports; three queued callers with the middle one cancelled at every boundary; three commands as ONE sequence with pauses (late answers arrive between its commands); sync drivers: all kinds x all outcomes with scripted replies; "
        "states = distinct (scenario, results) observations, transitions = scheduler events")
ASSUMPTIONS = [
    "gateway models keep the ground-truth outcome of every transmitted frame; each caller uses its own short address so answers identify their owner",
    "serial gateways: a framing error has no required outcome (statement: they only log it); an answer that arrives after the driver's answer timeout may be reported as 'no answer' but must never be handed to another caller",
    "hasseb answers only frames whose opcode is a query (model of its internal table)",
    "ATX hat: 'N' = no answer, 'J<hex>' = answer, one line per transmission; daliserver: 4-byte reply (version, status 0/1/255, value, pad)",
]
SANITY = ["answers_value_tridonic", "answers_value_hasseb", "answers_value_luba", "answers_value_sci", "answers_err_tridonic",
          "answers_err_hasseb", "answers_none_luba", "answers_value_daliserver", "answers_value_atx", "late_answer_reported_as_no_answer"]
BOUNDS = {"quick": "single caller: 9 kinds x 7 outcomes at d<=2; pairs: 9 x 3 kinds x 6 outcome pairs at d<=1, 12 selected at d<=2; triples at d<=1; 3 queued callers with the middle one cancelled (4 triples x 2 outcome sets, d<=1); 3 commands as one sequence (4 x 3, d<=2)",
          "thorough": "single caller d<=3; all pairs d<=2; selected pairs d<=3; triples d<=2; cancel-the-middle-caller d<=2; sequence mode d<=3"}

KINDS = ["off", "yn", "num", "bits", "gen", "dt", "twice", "q24", "c24"]
OUTS = [("none",), ("value", 0), ("value", 1), ("value", 0x42), ("value", 254), ("value", 255), ("err",)]
DRIVERS = ["tridonic", "hasseb", "luba", "sci"]


def build_cmd(kind, k):
    from dali.gear import general as gg, led
    from dali.device import general as dg
    from dali.address import GearShort, DeviceShort
    a = GearShort(k)
    return {"off": lambda: gg.Off(a), "yn": lambda: gg.QueryLampFailure(a), "num": lambda: gg.QueryActualLevel(a),
            "bits": lambda: gg.QueryStatus(a), "gen": lambda: gg.QueryGroupsZeroToSeven(a),
            "dt": lambda: led.QueryFastFadeTime(a), "twice": lambda: gg.SetScene(a, k),
            "q24": lambda: dg.QueryDeviceStatus(DeviceShort(k)), "c24": lambda: dg.IdentifyDevice(DeviceShort(k))}[kind]()


def make_world(driver, callers_spec, mode="plain", dup=False, exc_on=True, start_seq=1, foreign=False, observers=False):
    """callers_spec: list of (kind, outcome)."""
    def make():
        table = {}
        cmds = []
        for i, (kind, out) in enumerate(callers_spec):
            c = build_cmd(kind, i + 1)
            cmds.append(c)
            table[(len(c.frame), c.frame.as_integer)] = tuple(out)

        def bus(bits, value, idx):
            return table.get((bits, value), ("none",))
        callers = []
        if mode == "trx2":
            async def co(w):
                import asyncio
                async with w.driver.transaction_lock:
                    return await asyncio.gather(*[w.driver.send(c, in_transaction=True) for c in cmds], return_exceptions=True)
            callers = [Caller("trx", co)]
        elif mode == "seq":
            # ONE caller: the commands as a sequence (a transaction) with a pause between them
            from dali import sequences as seqs

            def gen():
                out = []
                for n, c in enumerate(cmds):
                    if n:
                        yield seqs.sleep(0.1)
                    r = yield c
                    out.append(r)
                return out

            async def co(w):
                return await w.driver.run_sequence(gen())
            callers = [Caller("seq", co)]
        else:
            for i, c in enumerate(cmds):
                async def co(w, c=c):
                    return await w.driver.send(c)
                callers.append(Caller(f"c{i + 1}", co, cancellable=(mode == "cancelmid" and i == 1)))
        if driver in ("tridonic", "hasseb"):
            from dalimc.aio.hidworld import HidWorld
            reps = None
            if foreign:
                # another master's query and the answer to it, as the gateway reports traffic it only observes (Tridonic:
                # mode 0x11, sequence number 0; hasseb: its observe channel) - deliverable at any point of the schedule
                from dalimc.aio.hidworld import report
                reps = [report(0x11, 0x73, bytes([0, 0, 0x7F, 0xA0]), 0), report(0x11, 0x72, bytes([0, 0, 0, 0x5A]), 0)] if driver == "tridonic" else None
            w = HidWorld(driver, bus, callers, exceptions_on_send=exc_on, start_seq=start_seq, foreign=reps if foreign == "any-time" else None)
            if reps and foreign != "any-time":
                w.foreign_before = {i: reps for i in range(len(cmds))}      # ... before each of our transmissions (bus busy)
            w.dup = dup
            w.oneshot_observers = observers
            w.reorder_reports = not dup       # (the duplicate report of the firmware quirk belongs to a LATER bus frame: it cannot overtake)
        else:
            from dalimc.aio.serialworld import SerialWorld
            w = SerialWorld(driver, bus, callers)
        w.cmds = cmds
        w.timer_budget = 8
        w.eager_start = (mode == "cancelmid")     # all callers queued back to back; the middle one may be cancelled
        return w
    return make


def judge_result(res, driver, kind, out, cmd, result, strict, case, who, others=()):
    """result: the object send() returned (or ('raised', ...))."""
    tag = f"{driver}:{kind}"
    if isinstance(result, BaseException):
        result = ("raised", type(result).__name__, str(result)[:60])
    if isinstance(result, tuple) and result and result[0] == "raised":
        if result[1] == "UnsupportedFrameTypeError" and driver in ("hasseb", "daliserver") and kind in ("q24", "c24"):
            return "refused"
        if result[1] == "TimeoutError" and driver in ("luba", "sci") and not strict and case.get("__late_ok__"):
            return "timeout"
        add_violation(res, f"C16:{tag}:raised:{result[1]}", f"{driver} send({kind}) with bus outcome {out}: raised {result[1:]} ({who})", case)
        return "raised"
    if cmd.response is None:
        if result is not None:
            add_violation(res, f"C16:{tag}:answer-for-non-query", f"{driver} send({kind}) returned {result!r}", case)
        return "none"
    if type(result) is not cmd.response:
        add_violation(res, f"C16:{tag}:response-type",
                      f"{driver} send({kind}) with bus outcome {out}: returned {type(result).__module__}.{type(result).__name__}, "
                      f"the command's response type is {cmd.response.__name__} ({who})", case)
        return "wrongtype"
    raw = result.raw_value
    got = ("none",) if raw is None else (("err",) if raw.error else ("value", raw.as_integer))
    observe(res, f"answers_{got[0]}_{driver}")
    if out[0] == "err" and driver in ("luba", "sci"):
        return "serial-err"
    if got != tuple(out):
        if got == ("none",) and driver in ("luba", "sci") and not strict and case.get("__late_ok__"):
            observe(res, "late_answer_reported_as_no_answer")
            return "late"
        if got[0] == "value" and got in others:
            # the answer of ANOTHER caller's command.  Two different histories give this symptom; only the
            # first is the recorded protocol-inherent finding: (a) the late answer reached the driver AFTER
            # this caller had been started (it slipped in behind the pre-send flush); (b) it was already
            # there before this caller started - then the flush should have removed it.
            if case.get("__cancelled_out__") is not None and got == tuple(case["__cancelled_out__"]):
                # the answer to the command of the caller that was CANCELLED while its query was on the bus
                add_violation(res, f"C16:{driver}:answer-of-cancelled-command",
                              f"{driver} send({kind}): bus outcome for this command was {out}, but the caller was handed {got}, the answer to the "
                              f"command of the caller that had been cancelled while waiting for it ({who})", case)
                return "stale-cancelled"
            if got[1] in case.get("__only_before__", ()):
                add_violation(res, f"C16:{driver}:stale-answer-not-flushed",
                              f"{driver} send({kind}): handed {got}, another command's answer that had reached the driver BEFORE this command was "
                              f"transmitted and should have been discarded by the pre-send flush ({who})", case)
                return "stale-unflushed"
            if case.get("__late_before_start__"):
                add_violation(res, f"C16:{driver}:stale-answer-not-flushed",
                              f"{driver} send({kind}): handed {got}, another command's answer that had arrived BEFORE this send started "
                              f"and should have been discarded ({who})", case)
                return "stale-unflushed"
            add_violation(res, f"C16:{driver}:stale-answer-of-another-command",
                          f"{driver} send({kind}): bus outcome for this command was {out}, but the caller was handed {got}, the answer to "
                          f"another caller's command that arrived late ({who})", case)
            return "stale"
        add_violation(res, f"C16:{tag}:wrong-answer:{out[0]}->{got[0]}",
                      f"{driver} send({kind}): the bus outcome for this command was {out}, the caller got {got} ({who})", case)
        return "wrong"
    return got[0]


def judge(res, driver, spec, mode, w, obs, strict):
    case = {"driver": driver, "spec": [[k, list(o)] for k, o in spec], "mode": mode}
    outs = []
    late_before = {}
    if driver in ("luba", "sci") and mode == "plain":
        # for every caller: was some backward-frame report delivered before it was started but after an
        # earlier timer had fired (i.e. a late answer that was sitting in the queue when it began)?
        for i in range(len(spec)):
            lbl = f"start:c{i + 1}"
            if lbl in w.trace:
                ts = w.trace.index(lbl)
                first_timer = next((n for n, e in enumerate(w.trace) if e == "timer"), None)
                def is_answer(b):
                    return (len(b) > 6 and b[1] == 0x31 and (b[6] >> 6) == 2 and b[2] == 5) if driver == "luba" else (len(b) == 5 and (b[0] & 0x0F) == 2)
                late_before[i] = first_timer is not None and any(first_timer < pos < ts and is_answer(b) for pos, b in w.deliveries)
    if w.status != "quiescent":
        add_violation(res, f"C16:{driver}:horizon", f"{driver} {spec}: step horizon reached", case)
    if mode == "seq":
        oc = obs["callers"][0]
        if oc[0] != "returned":
            if not (oc[0] == "raised" and oc[1] == "TimeoutError" and driver in ("luba", "sci") and not strict and w.late_timers):
                add_violation(res, f"C16:{driver}:seq-caller:{oc[0]}", f"{driver} {spec} as one sequence: caller {oc}", case)
            return ("seq", oc[0])
        gwm = w.gateway
        for j, ((kind, out), cmd, r) in enumerate(zip(spec, w.cmds, oc[1])):
            others = [tuple(o) for i2, (k2, o) in enumerate(spec) if i2 != j]
            cj = dict(case)
            if w.late_timers:
                cj["__late_ok__"] = True
            if driver in ("luba", "sci"):
                # was some backward-frame report handed to the driver BEFORE this command was even transmitted
                # (and after the previous command of the sequence)?  Then the pre-send flush must have removed it.
                key = (len(cmd.frame), cmd.frame.as_integer)
                idx = next((n for n, wf in enumerate(gwm.wire) if wf[:2] == key), None)
                if idx is not None:
                    pj = gwm.wire_pos[idx]

                    def is_answer(b):
                        return (len(b) > 6 and b[1] == 0x31 and (b[6] >> 6) == 2 and b[2] == 5) if driver == "luba" else (len(b) == 5 and (b[0] & 0x0F) == 2)

                    def answer_value(b):
                        return b[7] if driver == "luba" else b[3]
                    # values that reached the driver ONLY before this command went out: if the command is handed one of
                    # these, the pre-send flush did not do its job (a value that also arrived afterwards proves nothing)
                    # (a report injected at trace position q is processed by the next "run"; the command went out in the
                    # batch of the "run" at pj - 1: processed strictly earlier = some "run" in q .. pj - 2)
                    def settled(q):
                        return any(w.trace[r] == "run" for r in range(q, pj - 1))
                    before = {answer_value(b) for pos, b in w.deliveries if is_answer(b) and settled(pos)}
                    after = {answer_value(b) for pos, b in w.deliveries if is_answer(b) and not settled(pos)}
                    cj["__only_before__"] = sorted(before - after)
            outs.append(judge_result(res, driver, kind, out, cmd, r, strict, cj, f"command {j + 1} of the sequence", others))
    elif mode == "trx2":
        oc = obs["callers"][0]
        if oc[0] != "returned":
            add_violation(res, f"C16:{driver}:trx-caller:{oc[0]}", f"{driver} {spec} in one transaction: caller {oc}", case)
            return ("trx", oc[0])
        for j, ((kind, out), cmd, r) in enumerate(zip(spec, w.cmds, oc[1])):
            others = [tuple(o) for i2, (k2, o) in enumerate(spec) if i2 != j]
            outs.append(judge_result(res, driver, kind, out, cmd, r, strict, case, "two sends in flight", others))
    else:
        for i, ((kind, out), cmd, oc) in enumerate(zip(spec, w.cmds, obs["callers"])):
            others = [tuple(o) for i2, (k2, o) in enumerate(spec) if i2 != i]
            case = dict(case)
            if late_before.get(i):
                case["__late_before_start__"] = True
            # "answer reported as no answer" is tolerated only when a gateway report really was overtaken by a
            # timer after this caller had been started - not for any other deviation
            if mode == "cancelmid" and i != 1 and obs["callers"][1][0] == "cancelled":
                case["__cancelled_out__"] = list(spec[1][1])
            lbl = f"start:c{i + 1}"
            ts = w.trace.index(lbl) if lbl in w.trace else -1
            if any(p > ts for p in w.late_timers):
                case["__late_ok__"] = True
            if oc[0] == "returned":
                outs.append(judge_result(res, driver, kind, out, cmd, oc[1], strict, case, f"caller {i + 1} of {len(spec)}", others))
            elif oc[0] == "raised":
                outs.append(judge_result(res, driver, kind, out, cmd, oc, strict, case, f"caller {i + 1} of {len(spec)}"))
            elif oc[0] == "cancelled" and mode == "cancelmid" and i == 1 and any(x == "cancel:c2" for x in w.trace):
                outs.append("cancelled")
            else:
                add_violation(res, f"C16:{driver}:{kind}:caller-{oc[0]}", f"{driver} {spec}: caller {i + 1} is {oc[0]} at quiescence", case)
                outs.append(oc[0])
    if obs["lock"]:
        add_violation(res, f"C16:{driver}:lock-held", f"{driver} {spec}: transaction lock held at quiescence", case)
    if w.loop_exceptions:
        add_violation(res, f"C16:{driver}:loop-exception", f"{driver} {spec}: {w.loop_exceptions[:2]}", case)
    return tuple(outs)


# ----------------------------------------------------------------------------- sync drivers

class FakeSocket:
    def __init__(self, script, log):
        self.script, self.log = script, log

    def send(self, data):
        self.log.append(bytes(data))
        return len(data)

    def recv(self, n):
        return self.script.pop(0) if self.script else b""

    def close(self):
        pass


class ServerSocket:
    """daliserver model: every 4-byte request is answered by exactly one 4-byte reply, in order."""

    def __init__(self, table, log):
        self.table, self.log, self.replies = table, log, []

    def send(self, data):
        data = bytes(data)
        self.log.append(data)
        out = self.table.get(data[2:], ("none",))
        self.replies.append({"none": bytes([2, 0, 0, 0]), "err": bytes([2, 255, 0, 0])}.get(out[0]) or bytes([2, 1, out[1], 0]))
        return len(data)

    def recv(self, n):
        return self.replies.pop(0) if self.replies else b""

    def close(self):
        pass


def run_daliserver_sequence(spec, multi):
    """Several commands through ONE DaliServer object (persistent connection when multi)."""
    import dali.driver.daliserver as DS
    cmds = [build_cmd(kind, i + 1) for i, (kind, out) in enumerate(spec)]
    table = {c.frame.pack: tuple(out) for c, (kind, out) in zip(cmds, spec)}
    log = []
    socks = []

    class _S:
        @staticmethod
        def create_connection(target):
            socks.append(ServerSocket(table, log))
            return socks[-1]
    DS.socket = _S
    d = DS.DaliServer(multiple_frames_per_connection=multi)
    results = []
    with d:
        for c in cmds:
            try:
                results.append(d.send(c))
            except Exception as e:
                results.append(e)
    return cmds, results


def run_daliserver(kind, out, multi, oob=None):
    import dali.driver.daliserver as DS
    cmd = build_cmd(kind, 3)
    reply = {"none": bytes([2, 0, 0, 0]), "err": bytes([2, 255, 0, 0])}.get(out[0]) or bytes([2, 1, out[1], 0])
    log = []
    script = [reply, reply]
    if oob is not None:
        # daliserver pushes a frame that answers nobody's command (status `oob`: bus traffic of another client) ahead of the reply
        script = [bytes([2, oob, 0xFF, 5])] + script

    class _S:
        @staticmethod
        def create_connection(target):
            return FakeSocket(script, log)
    DS.socket = _S
    d = DS.DaliServer(multiple_frames_per_connection=multi)
    try:
        with d:
            r = d.send(cmd)
    except Exception as e:
        r = e
    return cmd, r, log


class FakeSerial:
    def __init__(self, lines, log):
        self.lines, self.log = lines, log

    def write(self, data):
        self.log.append(bytes(data))

    def read_until(self, term):
        return self.lines.pop(0) if self.lines else b""

    def close(self):
        pass


def run_atx(kind, out):
    import dali.driver.atxled as AX
    import logging
    cmd = build_cmd(kind, 3)
    line = b"N\n" if out[0] == "none" else b"J%02X\n" % out[1]
    log = []
    lines = [line, line] if cmd.sendtwice else [line]

    class _Ser:
        PARITY_NONE = STOPBITS_ONE = EIGHTBITS = 0

        @staticmethod
        def Serial(**kw):
            return FakeSerial(lines, log)

    class _T:
        @staticmethod
        def sleep(x):
            pass
    AX.serial = _Ser
    AX.time = _T
    d = AX.SyncDaliHatDriver(port="/dev/fake", LOG=logging.getLogger("null"))
    try:
        r = d.send(cmd)
    except Exception as e:
        r = e
    return cmd, r, log


class HatSerial:
    """ATX hat model for command SEQUENCES on one driver object: each transmitted line is answered with k lines of
    foreign bus traffic ('H....') followed by the line for this transmission ('N' / 'Jxx')."""

    def __init__(self, plan, log):
        self.plan, self.log, self.rx = plan, log, []

    def write(self, data):
        self.log.append(bytes(data))
        k, line, reps = self.plan.pop(0) if self.plan else (0, b"N\n", 1)
        self.rx += [b"HFE80\n"] * k + [line] * reps           # ('t' prefix: the hat repeats the frame itself and reports both)

    def read_until(self, term):
        return self.rx.pop(0) if self.rx else b""

    def close(self):
        pass


def run_atx_sequence(spec, foreign):
    """spec: [(kind, out)], foreign: lines of other traffic the hat reports before each answer line."""
    import dali.driver.atxled as AX
    import logging
    cmds = [build_cmd(kind, i + 1) for i, (kind, out) in enumerate(spec)]
    plan = []
    for c, (kind, out), k in zip(cmds, spec, foreign):
        line = b"N\n" if out[0] == "none" else b"J%02X\n" % out[1]
        plan.append((k, line, 2 if c.sendtwice else 1))
    log = []
    ser = HatSerial(plan, log)

    class _Ser:
        PARITY_NONE = STOPBITS_ONE = EIGHTBITS = 0

        @staticmethod
        def Serial(**kw):
            return ser

    class _T:
        @staticmethod
        def sleep(x):
            pass
    AX.serial = _Ser
    AX.time = _T
    d = AX.SyncDaliHatDriver(port="/dev/fake", LOG=logging.getLogger("null"))
    results = []
    for c in cmds:
        try:
            results.append(d.send(c))
        except Exception as e:
            results.append(e)
    return cmds, results, ser.rx


# ----------------------------------------------------------------------------- shards

SEL_PAIRS = [("num", "num"), ("yn", "num"), ("dt", "num"), ("twice", "num"), ("off", "num"), ("num", "dt"),
             ("bits", "gen"), ("q24", "num"), ("c24", "q24"), ("gen", "off"), ("dt", "dt"), ("num", "yn")]
OUT_PAIRS = [(("value", 0x42), ("value", 0x17)), (("none",), ("value", 0x42)), (("value", 0x42), ("none",)),
             (("err",), ("value", 1)), (("value", 255), ("value", 0)), (("none",), ("none",))]


def shards(tier):
    out = []
    d1 = 2 if tier == "quick" else 3
    for drv in DRIVERS:
        for kind in KINDS:
            out.append(("single", drv, kind, d1))
        for ka in KINDS:
            for kb in ("num", "off", "dt"):
                out.append(("pair", drv, ka, kb, 1 if tier == "quick" else 2))
        for ka, kb in SEL_PAIRS:
            out.append(("pair", drv, ka, kb, 2 if tier == "quick" else 3))
        for tr in (("num", "dt", "num"), ("yn", "num", "off"), ("twice", "num", "dt")):
            out.append(("triple", drv, tr, 1 if tier == "quick" else 2))
    for ka, kb in [("num", "num"), ("num", "dt"), ("twice", "num"), ("q24", "num"), ("yn", "gen"), ("off", "num")]:
        out.append(("trx2", ka, kb, 2 if tier == "quick" else 3))
    for drv in DRIVERS:
        for tr in (("num", "num", "num"), ("num", "yn", "dt"), ("dt", "num", "bits"), ("twice", "num", "num")):
            out.append(("cancelmid", drv, tr, 1 if tier == "quick" else 2))
        for tr in (("num", "num", "num"), ("num", "off", "num"), ("dt", "num", "yn"), ("yn", "twice", "num")):
            out.append(("seq", drv, tr, 2 if tier == "quick" else 3))
    for drv in ("tridonic", "hasseb"):
        for kind in ("num", "off", "q24", "c24", "dt"):
            out.append(("noexc", drv, kind, 1 if tier == "quick" else 2))
    out.append(("dup", 2 if tier == "quick" else 3))
    for start_seq in (1, 254, 255):
        for kinds in (("num", "num"), ("num", "yn", "num")):
            out.append(("foreign", "tridonic", kinds, start_seq, 2 if tier == "quick" else 3))
    for drv in ("tridonic", "hasseb"):
        for kinds in (("num", "num"), ("off", "num"), ("dt", "yn"), ("twice", "num")):
            out.append(("observers", drv, kinds, 1 if tier == "quick" else 2))
    out.append(("sync",))
    out.append(("atx-threads",))
    return out


def _explore(res, driver, spec, mode, bound, dup=False, exc_on=True, start_seq=1, foreign=False, observers=False):
    mk = make_world(driver, spec, mode, dup, exc_on, start_seq, foreign, observers)
    outs = set()
    for ch, got in explore(lambda c: execute(mk, c), bound):
        w, obs = got
        o = judge(res, driver, spec, mode, w, obs, strict=(ch.cost == 0))
        outs.add(o)
        res["evaluations"] += 1
        res["traces"] += 1
        res["transitions"] += len(w.trace)
    for v in res["violations"]:
        v["case"].setdefault("bound", bound)
        v["case"].setdefault("exc_on", exc_on)
        v["case"].setdefault("start_seq", start_seq)
        v["case"].setdefault("foreign", foreign)
        v["case"].setdefault("observers", observers)
    return outs


def run_shard(shard):
    res = new_result()
    k = shard[0]
    outs = set()
    if k == "single":
        _, drv, kind, bound = shard
        for out in OUTS:
            outs |= {(kind, out, o) for o in _explore(res, drv, [(kind, out)], "plain", bound)}
        sample(res, {"driver": drv, "single": kind, "bound": bound})
    elif k == "pair":
        _, drv, ka, kb, bound = shard
        for oa, ob in OUT_PAIRS:
            outs |= {(ka, kb, oa, ob, o) for o in _explore(res, drv, [(ka, oa), (kb, ob)], "plain", bound)}
        sample(res, {"driver": drv, "pair": [ka, kb], "bound": bound})
    elif k == "triple":
        _, drv, tr, bound = shard
        for oc in ((("value", 1), ("value", 2), ("value", 3)), (("none",), ("value", 9), ("err",))):
            outs |= {(tr, oc, o) for o in _explore(res, drv, list(zip(tr, oc)), "plain", bound)}
        sample(res, {"driver": drv, "triple": list(tr), "bound": bound})
    elif k == "cancelmid":
        _, drv, tr, bound = shard
        for oc in ((("value", 1), ("value", 2), ("value", 3)), (("none",), ("value", 9), ("value", 0x42))):
            outs |= {(tr, oc, o) for o in _explore(res, drv, list(zip(tr, oc)), "cancelmid", bound)}
        sample(res, {"driver": drv, "middle_caller_cancelled": list(tr), "bound": bound})
    elif k == "noexc":
        # exceptions switched off (transparent retry after a loss): everything else must be as before - in particular a
        # frame the gateway cannot carry is still REFUSED, not retried for ever
        _, drv, kind, bound = shard
        for out in (("value", 0x42), ("none",)):
            outs |= {(kind, out, o) for o in _explore(res, drv, [(kind, out)], "plain", bound, exc_on=False)}
        sample(res, {"driver": drv, "exceptions_off": kind, "bound": bound})
    elif k == "seq":
        _, drv, tr, bound = shard
        for oc in ((("value", 0x11), ("value", 0x22), ("none",)), (("none",), ("value", 9), ("value", 0x42)), (("value", 1), ("none",), ("value", 3))):
            outs |= {(tr, oc, o) for o in _explore(res, drv, list(zip(tr, oc)), "seq", bound)}
        sample(res, {"driver": drv, "commands_as_one_sequence": list(tr), "bound": bound})
    elif k == "trx2":
        _, ka, kb, bound = shard
        for oa, ob in OUT_PAIRS:
            outs |= {(ka, kb, oa, ob, o) for o in _explore(res, "tridonic", [(ka, oa), (kb, ob)], "trx2", bound)}
        sample(res, {"driver": "tridonic", "two_in_flight": [ka, kb], "bound": bound})
    elif k == "observers":
        # application observers that unregister themselves from inside their callback: the callers' answers are unaffected
        _, drv, kinds, bound = shard
        for oc in ((("value", 1), ("value", 2)), (("none",), ("value", 9)), (("err",), ("value", 0x42))):
            outs |= {(kinds, oc, o) for o in _explore(res, drv, list(zip(kinds, oc)), "plain", bound, observers=True)}
        sample(res, {"driver": drv, "self_unregistering_observers": True, "kinds": list(kinds), "bound": bound})
    elif k == "foreign":
        # traffic of ANOTHER master (a query and its answer 0x5A) observed while our commands are queued / in flight, with the
        # driver's sequence numbers at and across their wrap: an answer "intended for another" is never handed to a caller
        _, drv, kinds, start_seq, bound = shard
        for oc in ((("value", 1), ("value", 2), ("value", 3)), (("none",), ("value", 9), ("none",))):
            spec = list(zip(kinds, oc))
            for how in ("before-tx", "any-time"):
                outs |= {(kinds, oc, how, o) for o in _explore(res, drv, spec, "plain", bound if how == "before-tx" else 1, start_seq=start_seq, foreign=how)}
        sample(res, {"driver": drv, "foreign_traffic_observed": True, "start_seq": start_seq, "kinds": list(kinds), "bound": bound})
    elif k == "dup":
        for ka, kb in (("num", "num"), ("twice", "num"), ("off", "dt")):
            outs |= {(ka, kb, o) for o in _explore(res, "tridonic", [(ka, ("value", 5)), (kb, ("value", 6))], "plain", shard[1], dup=True)}
        sample(res, {"driver": "tridonic", "duplicate_reports": True})
    elif k == "atx-threads":
        # ATX hat: a bus-monitor THREAD polling the public read_line() while another thread sends a query.  The port read
        # blocks (model: readers queue up, a line goes to the reader that has waited longest).  One-preemption exploration:
        # the monitor is suspended after every line of read_line() - inside the port read too - and the sender then runs
        # send(); the sender must get the answer to ITS command (the driver's lock has to cover the port read).
        from dalimc.core.preempt import one_preemption
        from dalimc.core import repo
        import dali.driver.atxled as AX
        import logging

        class BlockingHat:
            def __init__(self):
                self.rx, self.waiters, self.log = [], [], []

            def write(self, data):
                self.log.append(bytes(data))
                self.rx.append(b"J42\n")

            def read_until(self, term):
                me = object()
                self.waiters.append(me)
                ahead = self.waiters[0] is not me
                out = b""
                if self.rx and not ahead:
                    out = self.rx.pop(0)
                self.waiters.remove(me)
                return out

            def close(self):
                pass
        ser = BlockingHat()

        class _Ser:
            PARITY_NONE = STOPBITS_ONE = EIGHTBITS = 0

            @staticmethod
            def Serial(**kw):
                return ser

        class _T:
            @staticmethod
            def sleep(x):
                pass
        AX.serial = _Ser
        AX.time = _T
        drv = AX.SyncDaliHatDriver(port="/dev/fake", LOG=logging.getLogger("null"))
        cmd = build_cmd("num", 3)

        def monitor():
            return drv.read_line()

        def sender():
            r = drv.send(cmd)
            raw = r.raw_value
            return (type(r).__name__, None if raw is None else raw.as_integer)
        for r in one_preemption(monitor, sender, (repo.REPO, __file__), b_may_block=0.25):
            res["evaluations"] += 1
            res["transitions"] += 1
            case = {"driver": "atx", "spec": [["num", ["value", 0x42]]], "mode": "atx-threads", "k": r["k"]}
            if r["preempted"] and r["b"] != ("v", ("NumericResponseMask", 0x42)):
                add_violation(res, "C16:atx:answer-taken-by-monitor-thread",
                              f"ATX hat: a monitor thread suspended after line {r['k']} of its read_line() (possibly inside the port read) while another "
                              f"thread ran send(query): send returned {r['b']}, the hat reported 0x42; the monitor read {r['a']}", case)
            outs.add(("atx-threads", str(r["b"]), r.get("b_blocked")))
            observe(res, "atx_thread_preemption_points")
        sample(res, {"driver": "atx", "threads": "monitor read_line() suspended at every line vs send()"})
    elif k == "sync":
        for kind in KINDS:
            for out in OUTS:
                for multi in (False, True):
                    cmd, r, log = run_daliserver(kind, out, multi)
                    case = {"driver": "daliserver", "spec": [[kind, list(out)]], "mode": "sync"}
                    o = judge_result(res, "daliserver", kind, out, cmd, r, True, case, "sync")
                    outs.add(("daliserver", kind, out, o))
                    res["evaluations"] += 1
                    if o != "refused" and len(log) != (2 if cmd.sendtwice else 1):
                        add_violation(res, f"C16:daliserver:{kind}:transmissions", f"{len(log)} packets for sendtwice={cmd.sendtwice}", case)
                    # a frame with a status that denotes no answer to a command (2, 3, 0x80, 254) ahead of the reply: the
                    # caller gets its own answer or a CommunicationError - never an answer made up from that frame
                    for oob in (2, 3, 0x80, 254):
                        cmd, r, log = run_daliserver(kind, out, multi, oob=oob)
                        res["evaluations"] += 1
                        if isinstance(r, Exception) and type(r).__name__ == "CommunicationError":
                            observe(res, "daliserver_out_of_band_frame_refused")
                            continue
                        case2 = {"driver": "daliserver", "spec": [[kind, list(out)]], "mode": "sync", "oob": oob}
                        o2 = judge_result(res, "daliserver", kind, out, cmd, r, True, case2, f"sync, status-{oob} frame ahead of the reply")
                        outs.add(("daliserver-oob", kind, out, o2))
                if out[0] != "err" and kind not in ():
                    cmd, r, log = run_atx(kind, out)
                    case = {"driver": "atx", "spec": [[kind, list(out)]], "mode": "sync"}
                    if cmd.response is None and out[0] == "value":
                        observe(res, "atx_backward_frame_after_non_query")
                    else:
                        o = judge_result(res, "atx", kind, out, cmd, r, True, case, "sync")
                        outs.add(("atx", kind, out, o))
                    res["evaluations"] += 1
        # sequences over one client object / one persistent connection: answers must stay paired
        seq_alpha = [("off", ("none",)), ("twice", ("none",)), ("num", ("value", 0x42)), ("num", ("none",)), ("yn", ("value", 255)),
                     ("bits", ("value", 0x11)), ("gen", ("err",))]
        for L in (2, 3):
            for seq in itertools.product(seq_alpha, repeat=L):
                vals = [(k, (o[0], o[1] + i) if o[0] == "value" and k != "yn" else o) for i, (k, o) in enumerate(seq)]
                for multi in (False, True):
                    cmds, results = run_daliserver_sequence(vals, multi)
                    case = {"driver": "daliserver", "spec": [[k, list(o)] for k, o in vals], "mode": "sync-seq", "multi": multi}
                    for j, ((kind, out), cmd, r) in enumerate(zip(vals, cmds, results)):
                        others = [tuple(o) for i2, (k2, o) in enumerate(vals) if i2 != j]
                        o = judge_result(res, "daliserver", kind, out, cmd, r, True, case, f"command {j + 1} of {L}, persistent={multi}", others)
                        outs.add(("daliserver-seq", kind, o))
                    res["evaluations"] += 1
        # ATX hat: 7 commands through ONE driver object, 0..2 lines of other bus traffic reported before every answer
        for pattern in (("num", "num", "off", "num", "yn", "num", "num"), ("num", "twice", "num", "num", "off", "bits", "num")):
            for foreign in itertools.product((0, 1, 2), repeat=7):
                vals = [(k, ("none",) if k in ("off", "twice") else ("value", 0x30 + i)) for i, k in enumerate(pattern)]
                cmds, results, left = run_atx_sequence(vals, foreign)
                case = {"driver": "atx", "spec": [[k, list(o)] for k, o in vals], "mode": "atx-seq", "foreign": list(foreign)}
                for j, ((kind, out), cmd, r) in enumerate(zip(vals, cmds, results)):
                    others = [tuple(o) for i2, (k2, o) in enumerate(vals) if i2 != j]
                    o = judge_result(res, "atx", kind, out, cmd, r, True, case, f"command {j + 1} of 7, foreign lines before the answers {foreign}", others)
                    outs.add(("atx-seq", kind, o))
                if left:
                    add_violation(res, "C16:atx:answer-left-unread", f"{case}: lines left unread on the port: {left}", case)
                res["evaluations"] += 1
        sample(res, {"sync_drivers": ["daliserver", "atxled"], "kinds": KINDS, "outcomes": [list(o) for o in OUTS]})
    res["states"] = len(outs)
    res["distinct"] = outs
    return res


def replay(case):
    res = new_result()
    spec = [(k, tuple(o)) for k, o in case["spec"]]
    drv, mode = case["driver"], case.get("mode", "plain")
    if mode == "atx-threads":
        return run_shard(("atx-threads",))["violations"]
    if mode in ("sync", "sync-seq", "atx-seq"):
        return [v for v in run_shard(("sync",))["violations"] if v["case"]["driver"] == drv and v["case"]["spec"] == case["spec"]
                and v["case"].get("multi") == case.get("multi") and v["case"].get("foreign") == case.get("foreign")]
    bound = case.get("bound", 2)
    mk = make_world(drv, spec, mode, exc_on=case.get("exc_on", True), start_seq=case.get("start_seq", 1), foreign=case.get("foreign") if isinstance(case.get("foreign"), str) else False, observers=case.get("observers", False))
    first = None
    for ch, got in explore(lambda c: execute(mk, c), bound):
        w, obs = got
        n0 = len(res["violations"])
        judge(res, drv, spec, mode, w, obs, strict=(ch.cost == 0))
        if len(res["violations"]) > n0 and first is None:
            first = (ch.choices, list(w.trace))
    if first:
        print("   first failing schedule:", first[0])
        print("   events:", first[1])
    return res["violations"]
