"""C08 - gear query/set sequences report and establish exactly the gear's state.

E2: the real generator sequences (QueryDeviceTypes, QueryGroups, SetGroups) are closed with
the gear102 specification model; every configuration of the stated finite domains is run,
and for the fault side EVERY adversarial answer stream up to a length bound is fed to the
sequence (continued cyclically = never-ending answers) under a hard command cap.
"""
import itertools

from dalimc.core.runner import new_result, add_violation, observe, sample
from dalimc.env import gear102 as G
from . import _partner as P

ID = "C08"
OPTIMISED_STRIDE = {"quick": 10, "thorough": 20}      # every k-th shard once more in an interpreter started with -O
TRACE_STRIDE = {"quick": 10, "thorough": 20}      # every k-th shard once more with logging enabled down to TRACE
BYTEORDER_STRIDE = {"quick": 16, "thorough": 32}      # every k-th shard once more with sys.byteorder reporting a big-endian host
CHAIN_STRIDE = {'quick': 10, 'thorough': 30}      # every k-th shard is re-run in chains inside one process (non-initial process states)
LEVEL = "model_checking"
ENGINE = "E2"
TECHNIQUE = "exhaustive enumeration of gear states and of all adversarial answer streams up to a length bound, driving the real generator sequences against a spec model of the gear"
RULE = ("QueryDeviceTypes: all ascending device-type lists over {0,1,6,8,253} (len 0..5) and over 0..7 (len 5..8); every answer "
        "stream of length <= L over {none, framing error, 0, 1, 6, 254, 255} continued cyclically, cap 300 commands; QueryGroups: "
        "all 2^16 membership sets + silence/framing error on either query; SetGroups: all (current, requested) pairs over structured "
        "subsets x {Short, int, Group, Broadcast} destinations + faults on the read-back; "
        "states = distinct (gear state | stream) configurations, transitions = commands executed")
ASSUMPTIONS = [
    "gear model dalimc.env.gear102 (QUERY DEVICE TYPE / QUERY NEXT DEVICE TYPE protocol, group commands) written from IEC 62386-102 11.5",
    "an adversarial stream may be accepted only when it is a legal protocol run (first answer < 254 -> [a]; 254 -> []; 255 then strictly ascending values < 254 then 254)",
    "send-twice is the driver's job: the model executes a send-twice command once",
]
BOUNDS = {"quick": "streams len<=6 (137 256); SetGroups pairs over 2^6-subsets of low and high byte (3 x 4096 x 5 destinations incl. all-unaddressed with three such units); all 64 short addresses x {object, int} x 16 group selectors on 8 pairs + faults",
          "thorough": "streams len<=7 (960 799); SetGroups pairs over 2^8-subsets (3 x 65 536 x 4 destinations)"}

ALPHA = ["none", "err", 0, 1, 6, 254, 255]
CAP = 300


def shards(tier):
    out = [("dt_lists",)]
    L = 6 if tier == "quick" else 7
    for first in range(len(ALPHA)):
        for second in range(len(ALPHA) + 1):
            out.append(("streams", L, first, second))
    for hi in range(0, 256, 16):
        out.append(("qgroups", hi, hi + 16))
    out.append(("qgroups_faults",))
    nb = 6 if tier == "quick" else 8
    for mode in ("low-low", "high-high", "low-high"):
        for dest in ("short", "int", "group", "broadcast", "unaddressed"):
            parts = 1 if tier == "quick" else 8
            for p in range(parts):
                out.append(("setgroups", mode, dest, nb, p, parts))
    out.append(("setgroups_faults",))
    for a0 in range(0, 64, 8):
        out.append(("addr_sweep", a0, a0 + 8))
    for i in range(len(interleave_scenarios())):
        out.append(("interleaved", i))
    out += P.partner_shards(PARTNERS)
    return out


# ----------------------------------------------------------------------------- reference

def ref_stream_outcome(stream, strict=True):
    """What a correct QueryDeviceTypes may do with this answer stream: ('ok', list) | ('error',).

    strict=False treats an answer of 255 to QUERY NEXT DEVICE TYPE (not a device type, never
    sent by a conforming unit, not named by the statement) as an ordinary value; the check
    accepts either reading.
    """
    n = len(stream)
    a = stream[0]
    if a in ("none", "err"):
        return ("error",)
    if a < 254:
        return ("ok", [a])
    if a == 254:
        return ("ok", [])
    res, last, i = [], -1, 1
    while True:
        a = stream[i % n]
        i += 1
        if a in ("none", "err"):
            return ("error",)
        if a == 254:
            return ("ok", res) if res else ("error",)
        if (a == 255 and strict) or a <= last:
            return ("error",)
        res.append(a)
        last = a


class StreamBus:
    """Answers from a fixed stream regardless of the question (adversarial unit)."""

    def __init__(self, stream):
        self.stream, self.i = stream, 0
        self.log = []

    def execute(self, cmd):
        from dali import frame as F
        a = self.stream[self.i % len(self.stream)]
        self.i += 1
        self.log.append(type(cmd).__name__)
        if a == "none":
            return None
        if a == "err":
            return F.BackwardFrameError(0x55)
        return F.BackwardFrame(a)


def check_stream(res, stream):
    from dali.sequences import QueryDeviceTypes
    from dali.address import GearShort
    from dali.exceptions import DALISequenceError
    bus = StreamBus(stream)
    kind, val, n = G.run_sequence(QueryDeviceTypes(GearShort(3)), bus, CAP)
    res["transitions"] += n
    exp = ref_stream_outcome(stream)
    lenient = ref_stream_outcome(stream, strict=False)
    case = {"t": "stream", "stream": list(stream)}
    if kind == "cap":
        add_violation(res, "C08:QueryDeviceTypes:unbounded", f"stream {stream}: still running after {CAP} commands", case)
        return "cap"
    if kind == "raise":
        if not isinstance(val, DALISequenceError):
            add_violation(res, f"C08:QueryDeviceTypes:wrong-exception:{type(val).__name__}", f"stream {stream}: raised {val!r}", case)
            return "exc"
        if exp[0] == "ok":
            add_violation(res, "C08:QueryDeviceTypes:legal-run-rejected", f"stream {stream} is a legal protocol run for {exp[1]} but was rejected: {val}", case)
        return "error"
    if exp != lenient and lenient == ("ok", val):
        observe(res, "qndt_answer_255_accepted_as_a_type")
        return "ok:" + str(val)
    if exp[0] == "error":
        add_violation(res, "C08:QueryDeviceTypes:bad-stream-accepted", f"stream {stream}: returned {val!r}; no conforming unit produces this stream", case)
    elif val != exp[1]:
        add_violation(res, "C08:QueryDeviceTypes:wrong-list", f"stream {stream}: returned {val!r}, expected {exp[1]}", case)
    return "ok:" + str(val)


_SUBS = {}


def spell(cls, as_int, *args):
    """The destination in the spelling asked for: the library's address object, a plain integer (as_int=True, short
    addresses only) or an instance of an application subclass of the address class (as_int="sub")."""
    if as_int is True:
        return args[0]
    if as_int == "sub":
        if cls not in _SUBS:
            _SUBS[cls] = type("Labelled" + cls.__name__, (cls,), {"label": "luminaire"})
        return _SUBS[cls](*args)
    return cls(*args)


def check_dt_list(res, types, sa=3, as_int=False):
    from dali.sequences import QueryDeviceTypes
    from dali.address import GearShort
    unit = G.Gear(short=sa, devicetypes=types)
    other = G.Gear(short=(sa + 1) % 64, devicetypes=[2, 3])
    bus = G.Bus([unit, other])
    kind, val, n = G.run_sequence(QueryDeviceTypes(spell(GearShort, as_int, sa)), bus, CAP)
    res["transitions"] += n
    if kind != "return" or val != sorted(types):
        add_violation(res, "C08:QueryDeviceTypes:conforming-unit", f"unit {sa} (int form: {as_int}) with device types {types}: {kind} {val!r}",
                      {"t": "dtlist", "types": list(types), "sa": sa, "as_int": as_int})
    elif isinstance(val, list):
        # the list belongs to the caller (who may extend / sort it while surveying several units): the same query again,
        # of an identical fresh unit, still reports exactly the unit's list
        val.extend([6, 1, 250])
        val.reverse()
        bus2 = G.Bus([G.Gear(short=sa, devicetypes=types), G.Gear(short=(sa + 1) % 64, devicetypes=[2, 3])])
        kind2, val2, n2 = G.run_sequence(QueryDeviceTypes(spell(GearShort, as_int, sa)), bus2, CAP)
        res["transitions"] += n2
        if kind2 != "return" or val2 != sorted(types) or val2 is val:
            add_violation(res, "C08:QueryDeviceTypes:result-shared-between-calls", f"unit {sa} with device types {types}: the first result was extended by the caller; "
                          f"the same query again: {kind2} {val2!r}", {"t": "dtlist", "types": list(types), "sa": sa, "as_int": as_int})
    return kind


def groups_of(mask):
    return {i for i in range(16) if mask >> i & 1}


def check_qgroups(res, mask, fault=None, sa=7, as_int=False):
    from dali.sequences import QueryGroups
    from dali.address import GearShort
    from dali.exceptions import DALISequenceError
    from dali import frame as F
    unit = G.Gear(short=sa, groups=groups_of(mask))
    bus = G.Bus([unit, G.Gear(short=(sa + 1) % 64, groups={0, 15})])
    fl = None
    if fault:
        def fl(i, cmd, fr):
            if i == fault[0]:
                return None if fault[1] == "none" else F.BackwardFrameError(fr.as_integer if fr else 0)
            return fr
    kind, val, n = G.run_sequence(QueryGroups(spell(GearShort, as_int, sa)), bus, CAP, fl)
    res["transitions"] += n
    case = {"t": "qgroups", "mask": mask, "fault": fault, "sa": sa, "as_int": as_int}
    if fault:
        if kind != "raise" or not isinstance(val, DALISequenceError):
            add_violation(res, "C08:QueryGroups:fault-not-reported", f"groups {mask:#06x} fault {fault}: {kind} {val!r}", case)
    elif kind != "return" or val != groups_of(mask):
        add_violation(res, "C08:QueryGroups:wrong-set", f"unit in groups {sorted(groups_of(mask))}: {kind} {val!r}", case)
    elif isinstance(val, set):
        val.update({0, 15, 99})                 # the caller's own set from now on: a later query must not see it


def check_setgroups(res, dest, emask, rmask, fault=None, sa=5, GSEL=3):
    from dali.sequences import SetGroups
    from dali.address import GearShort, GearGroup, GearBroadcast, GearBroadcastUnaddressed
    from dali.exceptions import DALISequenceError
    from dali import frame as F
    existing, requested = groups_of(emask), groups_of(rmask)
    case = {"t": "setgroups", "dest": dest, "e": emask, "r": rmask, "fault": fault, "sa": sa, "gsel": GSEL}
    if dest in ("short", "int", "short-sub"):
        target = [G.Gear(short=sa, groups=existing)]
        others = [G.Gear(short=(sa + 1) % 64, groups={1, 9})]
        addr = spell(GearShort, {"short": False, "int": True}.get(dest, "sub"), sa)
    elif dest in ("group", "group-sub"):
        target = [G.Gear(short=sa, groups=existing | {GSEL}), G.Gear(short=(sa + 4) % 64, groups={GSEL, 15} | ({14} if GSEL == 15 else set()))]
        others = [G.Gear(short=(sa + 1) % 64, groups={1, 9} - {GSEL})]
        addr = spell(GearGroup, "sub" if dest == "group-sub" else False, GSEL)
    elif dest == "unaddressed":
        # all gear WITHOUT a short address: several such units, each with another membership, answer queries together
        target = [G.Gear(short=None, groups=existing), G.Gear(short=None, groups={0, 7, 8}), G.Gear(short=None, groups=set())]
        others = [G.Gear(short=sa, groups={1, 9})]
        addr = GearBroadcastUnaddressed()
    else:
        target = [G.Gear(short=sa, groups=existing), G.Gear(short=None, groups={0, 7, 8})]
        others = []
        addr = spell(GearBroadcast, "sub" if dest == "broadcast-sub" else False)
    bus = G.Bus(target + others)
    before_others = [set(o.groups) for o in others]
    fl = None
    if fault:
        def fl(i, cmd, fr):
            if i == fault[0]:
                return None if fault[1] == "none" else F.BackwardFrameError(fr.as_integer if fr else 0)
            return fr
    kind, val, n = G.run_sequence(SetGroups(addr, set(requested)), bus, CAP, fl)
    res["transitions"] += n
    if fault:
        if kind != "raise" or not isinstance(val, DALISequenceError):
            add_violation(res, f"C08:SetGroups:fault-not-reported:{dest}", f"{case}: {kind} {val!r} after {n} commands", case)
        elif target[0].groups != existing:
            add_violation(res, f"C08:SetGroups:changed-despite-fault:{dest}", f"{case}: membership changed to {sorted(target[0].groups)}", case)
        return
    if kind != "return":
        add_violation(res, f"C08:SetGroups:raised:{dest}", f"{case}: {kind} {val!r}", case)
        return
    for t in target:
        if t.groups != requested:
            add_violation(res, f"C08:SetGroups:membership:{dest}",
                          f"SetGroups({dest}, {sorted(requested)}) on a unit in {sorted(existing | ({GSEL} if dest == 'group' else set()))}: ends in {sorted(t.groups)}", case)
            break
    for o, b in zip(others, before_others):
        if o.groups != b:
            add_violation(res, f"C08:SetGroups:bystander-changed:{dest}", f"{case}: unaddressed unit changed", case)
    if dest in ("short", "int", "short-sub"):
        changes = [(d[1], d[2][1]) for d, a in bus.log if d[1] in ("AddToGroup", "RemoveFromGroup")]
        exp = {("AddToGroup", g) for g in requested - existing} | {("RemoveFromGroup", g) for g in existing - requested}
        if set(changes) != exp or len(changes) != len(exp):
            add_violation(res, f"C08:SetGroups:unnecessary-changes:{dest}", f"{case}: issued {changes}, necessary {sorted(exp)}", case)


def interleave_scenarios():
    """Sequences an application may have alive at the same time (one per bus / driver)."""
    out = []
    for e, r in ((0x0028, 0x0002), (0xFFFF, 0), (0, 0xFFFF), (0x0206, 0x020C)):
        for gsel in (3, 5):
            out.append(("setgroups", "group", e, r, gsel))
        out.append(("setgroups", "short", e, r, 3))
    out.append(("setgroups", "broadcast", 0x0028, 0x0100, 3))
    out.append(("setgroups", "unaddressed", 0x0028, 0x0100, 3))
    out.append(("qgroups", 0xA5C3))
    out.append(("dtlist", (4, 6, 8)))
    return out


def _build_scenario(sc):
    """-> (generator, bus, judge) with judge() -> None | text; every scenario has its own bus and units."""
    from dali.sequences import SetGroups, QueryGroups, QueryDeviceTypes
    from dali.address import GearShort, GearGroup, GearBroadcast, GearBroadcastUnaddressed
    sa = 5
    if sc[0] == "qgroups":
        unit = G.Gear(short=sa, groups=groups_of(sc[1]))
        bus = G.Bus([unit, G.Gear(short=sa + 1, groups={0, 15})])
        return QueryGroups(GearShort(sa)), bus, lambda kind, val: None if (kind, val) == ("return", groups_of(sc[1])) else f"{kind} {val!r}"
    if sc[0] == "dtlist":
        unit = G.Gear(short=sa, devicetypes=list(sc[1]))
        bus = G.Bus([unit, G.Gear(short=sa + 1, devicetypes=[2, 3])])
        return QueryDeviceTypes(GearShort(sa)), bus, lambda kind, val: None if (kind, val) == ("return", sorted(sc[1])) else f"{kind} {val!r}"
    _, dest, emask, rmask, gsel = sc
    existing, requested = groups_of(emask), groups_of(rmask)
    if dest == "short":
        target, others, addr = [G.Gear(short=sa, groups=existing)], [G.Gear(short=sa + 1, groups={1, 9})], GearShort(sa)
    elif dest == "group":
        target = [G.Gear(short=sa, groups=existing | {gsel}), G.Gear(short=sa + 4, groups={gsel, 15, 8})]
        others, addr = [G.Gear(short=sa + 1, groups={1, 9} - {gsel})], GearGroup(gsel)
    elif dest == "unaddressed":
        target = [G.Gear(short=None, groups=existing), G.Gear(short=None, groups={0, 7, 8})]
        others, addr = [G.Gear(short=sa, groups={1, 9})], GearBroadcastUnaddressed()
    else:
        target, others, addr = [G.Gear(short=sa, groups=existing), G.Gear(short=None, groups={0, 7, 8})], [], GearBroadcast()
    bus = G.Bus(target + others)
    before = [set(o.groups) for o in others]

    def judge(kind, val):
        if kind != "return":
            return f"{kind} {val!r}"
        for t in target:
            if t.groups != requested:
                return f"a unit ends in groups {sorted(t.groups)}, requested {sorted(requested)}"
        if [set(o.groups) for o in others] != before:
            return "a unit that was not addressed changed"
        return None
    return SetGroups(addr, set(requested)), bus, judge


def check_interleaved(res, i):
    """Scenario i alive together with every other scenario, each on its own bus: the other one runs to completion after the
    k-th command of scenario i (every k), before it has started, and command-by-command in alternation."""
    scs = interleave_scenarios()
    a = scs[i]
    ga, ba, ja = _build_scenario(a)
    na = G.run_sequence(ga, ba, CAP)[2]
    for j, b in enumerate(scs):
        for k in list(range(1, na + 1)) + ["alt", "b-first"]:
            ga, ba, ja = _build_scenario(a)
            gb, bb, jb = _build_scenario(b)
            if k == "b-first":
                # both generators created, B driven first
                done = G.run_interleaved([gb, ga], [bb, ba], CAP, pattern=(10 ** 6, 10 ** 6))[::-1]
            else:
                done = G.run_interleaved([ga, gb], [ba, bb], CAP, pattern=(1, 1) if k == "alt" else (k, 10 ** 6))
            res["transitions"] += done[0][2] + done[1][2]
            res["traces"] += 1
            res["evaluations"] += 1
            case = {"t": "interleaved", "i": i, "j": j, "k": k}
            for who, d, judge, sc in (("first", done[0], ja, a), ("second", done[1], jb, b)):
                bad = judge(d[0], d[1])
                if bad:
                    add_violation(res, f"C08:interleaved:{sc[0]}:{sc[1] if sc[0] == 'setgroups' else ''}",
                                  f"sequences {a} and {b} alive together on two buses (switch {k}): the {who} one: {bad}", case)
    res["states"] += 1
    res["distinct"].add(("interleaved", a[0], a[1]))


def _mkpartner(sc):
    def make():
        gen, bus, judge = _build_scenario(sc)
        return gen, bus, lambda: [(u.short, sorted(u.groups)) for u in bus.units]
    return make


PARTNERS = [("SetGroups(Group(5), {1})", _mkpartner(("setgroups", "group", 0x0028, 0x0002, 5))),
            ("SetGroups(Broadcast, {8})", _mkpartner(("setgroups", "broadcast", 0x0028, 0x0100, 3))),
            ("QueryDeviceTypes", _mkpartner(("dtlist", (4, 6, 8))))]
PARTNERED = [("dt_lists",), ("qgroups_faults",), ("setgroups_faults",), ("setgroups", "low-low", "group", 4, 0, 1), ("setgroups", "low-high", "broadcast", 4, 0, 1),
             ("setgroups", "high-high", "short", 4, 0, 1)]


def run_shard(shard):
    if shard[0] == "partnered":
        import sys
        return P.run_partnered(sys.modules[__name__], shard, PARTNERS, PARTNERED)
    res = new_result()
    k = shard[0]
    if k == "interleaved":
        check_interleaved(res, shard[1])
        sample(res, {"interleaved_scenario": list(map(str, interleave_scenarios()[shard[1]])), "partners": len(interleave_scenarios())})
        return res
    if k == "dt_lists":
        lists = []
        for L in range(0, 6):
            lists += [list(c) for c in itertools.combinations([0, 1, 6, 8, 253], L)]
        for L in range(5, 9):
            lists += [list(c) for c in itertools.combinations(range(8), L)]
        # long lists up to the longest there is (all 254 device types 0..253) and lists around the top of the range
        lists += [list(range(254)), list(range(1, 254)), list(range(253)), list(range(0, 254, 2)), list(range(200, 254)), [252, 253], [0, 253], [253]]
        lists += [[t] for t in range(0, 254, 11)] + [[251], [252]]
        for t in lists:
            r = check_dt_list(res, t)
            res["evaluations"] += 1
            res["states"] += 1
            res["traces"] += 1
            res["distinct"].add(("dtlist", len(t), r))
        sample(res, {"device_type_lists": len(lists), "example": lists[-1]})
    elif k == "streams":
        _, L, first, second = shard
        n = 0
        for length in range(1, L + 1):
            if length == 1:
                if second != len(ALPHA):
                    continue
                streams = [(ALPHA[first],)]
            else:
                if second == len(ALPHA):
                    continue
                streams = ((ALPHA[first], ALPHA[second]) + rest for rest in itertools.product(ALPHA, repeat=length - 2))
            for s in streams:
                r = check_stream(res, s)
                n += 1
                res["distinct"].add(("stream", r))
        res["evaluations"] += n
        res["states"] += n
        res["traces"] += n
        if n:
            sample(res, {"streams_first": [str(ALPHA[first]), str(ALPHA[second]) if second < len(ALPHA) else "-"], "count": n})
    elif k == "qgroups":
        for hi in range(shard[1], shard[2]):
            for lo in range(256):
                check_qgroups(res, (hi << 8) | lo)
        n = (shard[2] - shard[1]) * 256
        res["evaluations"] += n
        res["states"] += n
        res["traces"] += n
        res["distinct"].add(("qgroups", shard[1]))
        sample(res, {"group_sets": [shard[1] << 8, (shard[2] << 8) - 1]})
    elif k == "qgroups_faults":
        for mask in (0, 1, 0x8000, 0xFFFF, 0x00FF, 0xA5A5):
            for pos in (0, 1):
                for f in ("none", "err"):
                    check_qgroups(res, mask, (pos, f))
                    res["evaluations"] += 1
                    res["states"] += 1
                    res["distinct"].add(("qgroups-fault", pos, f))
        sample(res, {"qgroups_faults": "silence / framing error on either query"})
    elif k == "setgroups":
        _, mode, dest, nb, part, parts = shard
        lo = [m for m in range(1 << nb)]
        hi = [m << (16 - nb) for m in range(1 << nb)]
        E, Rq = {"low-low": (lo, lo), "high-high": (hi, hi), "low-high": (lo, hi)}[mode]
        n = 0
        for i, e in enumerate(E):
            if i % parts != part:
                continue
            for r in Rq:
                check_setgroups(res, dest, e, r)
                n += 1
        res["evaluations"] += n
        res["states"] += n
        res["traces"] += n
        res["distinct"].add(("setgroups", mode, dest))
        sample(res, {"setgroups": mode, "dest": dest, "pairs": n})
    elif k == "setgroups_faults":
        for dest in ("short", "int"):
            for e, r in ((0, 0xFFFF), (0xFFFF, 0), (0x00F0, 0x0F00), (0x8001, 0x8001)):
                for pos in (0, 1):
                    for f in ("none", "err"):
                        check_setgroups(res, dest, e, r, (pos, f))
                        res["evaluations"] += 1
                        res["states"] += 1
                        res["distinct"].add(("setgroups-fault", dest, pos, f))
        sample(res, {"setgroups_faults": "silence / framing error on either group query"})
    elif k == "addr_sweep":
        # every short address in both spellings (address object / plain integer) and every group selector: the
        # sequences must not depend on WHICH unit is addressed (boundary addresses 0 and 63 included)
        pairs = ((0, 0xFFFF), (0xFFFF, 0), (0x0206, 0x020C), (0x8001, 0x8001), (0, 0), (0x00FF, 0xFF00), (0x5555, 0xAAAA), (1, 0x8000))
        for sa in range(shard[1], shard[2]):
            for as_int in (False, True, "sub"):
                if as_int == "sub" and sa % 16 not in (0, 5, 15):
                    continue
                for types in ([], [6], [4, 6, 8], [0], [1, 2, 3, 4, 5]):
                    check_dt_list(res, types, sa, as_int)
                for mask in (0, 0xFFFF, 0xA5C3, 0x0001, 0x8000):
                    check_qgroups(res, mask, None, sa, as_int)
                for pos in (0, 1):
                    for f in ("none", "err"):
                        check_qgroups(res, 0xA5C3, (pos, f), sa, as_int)
                dest = {False: "short", True: "int", "sub": "short-sub"}[as_int]
                for e, r in pairs:
                    check_setgroups(res, dest, e, r, None, sa)
                    res["evaluations"] += 1
                for pos in (0, 1):
                    for f in ("none", "err"):
                        check_setgroups(res, dest, 0x00F0, 0x0F00, (pos, f), sa)
                res["evaluations"] += 18
            for gsel in range(16):
                for e, r in pairs:
                    check_setgroups(res, "group", e, r, None, sa, gsel)
                    res["evaluations"] += 1
            for e, r in pairs:
                check_setgroups(res, "broadcast", e, r, None, sa)
                res["evaluations"] += 1
            if sa % 16 in (0, 5, 15):
                for e, r in pairs:
                    check_setgroups(res, "broadcast-sub", e, r, None, sa)
                    check_setgroups(res, "group-sub", e, r, None, sa, sa % 16)
                    res["evaluations"] += 2
        res["states"] += res["evaluations"]
        res["distinct"].add(("addr_sweep", shard[1]))
        sample(res, {"address_sweep": [shard[1], shard[2] - 1], "forms": ["GearShort", "int"], "group_selectors": 16})
    return res


def replay(case):
    res = new_result()
    t = case["t"]
    if t == "stream":
        s = tuple(case["stream"])
        r = check_stream(res, s)
        print("   outcome:", r, " reference:", ref_stream_outcome(s))
    elif t == "dtlist":
        check_dt_list(res, case["types"], case.get("sa", 3), case.get("as_int", False))
    elif t == "interleaved":
        check_interleaved(res, case["i"])
    elif t == "qgroups":
        check_qgroups(res, case["mask"], tuple(case["fault"]) if case["fault"] else None, case.get("sa", 7), case.get("as_int", False))
    else:
        check_setgroups(res, case["dest"], case["e"], case["r"], tuple(case["fault"]) if case["fault"] else None,
                        case.get("sa", 5), case.get("gsel", 3))
    return res["violations"]
