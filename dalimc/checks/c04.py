"""C04 - address and instance bytes: exact, local, mutually exclusive codec.

E1: exhaustive enumeration of (address object x frame) and of the decode partition against
the reference address tables in dalimc.spec.ref_codec.
"""
import itertools

from dalimc.core.runner import new_result, add_violation, observe, sample
from dalimc.spec import ref_codec as R

ID = "C04"
OPTIMISED_STRIDE = {"quick": 8, "thorough": 8}      # every k-th shard once more in an interpreter started with -O
TRACE_STRIDE = {"quick": 9, "thorough": 9}      # every k-th shard once more with logging enabled down to TRACE
CHAIN_STRIDE = {'quick': 10, 'thorough': 20}      # every k-th shard is re-run in chains inside one process (non-initial process states)
LEVEL = "exploration"
ENGINE = "E1"
TECHNIQUE = "exhaustive enumeration of address/instance objects x frames against literal partition tables"
RULE = ("82 gear address objects x all 2^16 frames (write, locality, read-back); 98 device addresses and 196+ "
        "instance objects x 24-bit frame slices; decode partition over all 16-bit frames and over 24-bit frames; "
        "all pairs of address / instance objects for ==; frame sizes 1..64 for refusal; the codec again from non-initial "
        "process states (6 orders of {raw slice writes on widths 8/16/24/32, gear, device, instance} in one process); "
        "distinct = distinct (object kind, outcome) classes")
ASSUMPTIONS = [
    "reference partition written from IEC 62386-102 7.2 / -103 7.2.1 as quoted in dali/address.py's module docstring",
    "a device address written into a frame whose bit 16 is 0 (an event frame) reads back as 'no address' - the standard's partition, not a codec error",
]
BOUNDS = {
    "quick": "gear: 82 x 2^16 complete; device: 98 x (2^16 upper halves + 2^12 lower x 4 uppers); instances: 204 x 2^16 lower halves (+ 2^8 uppers); partition: all 2^16 and 2^16 upper halves x 3 lowers; all pairs; sizes 1..64",
    "thorough": "device: 98 x (2^16 upper x 4 lowers + 2^16 lower x 8 uppers); partition over all 2^24 24-bit frames; rest as quick",
}

GEAR = R.ALL_GEAR_ADDRS
DEV = R.ALL_DEV_ADDRS
INST = R.ALL_INSTANCES + [("ReservedInstance", b) for b in (0x40, 0x5F, 0xE0, 0xFB, 0xF0)]


def shards(tier):
    out = []
    for i in range(0, len(GEAR), 6):
        out.append(("gear_rw", i, i + 6))
    for i in range(0, len(DEV), 4 if tier == "quick" else 2):
        out.append(("dev_rw", i, i + (4 if tier == "quick" else 2), tier))
    for i in range(0, len(INST), 8):
        out.append(("inst_rw", i, i + 8))
    out.append(("part16",))
    if tier == "quick":
        out.append(("part24q",))
    else:
        for hb in range(0, 256, 4):
            out.append(("part24", hb, hb + 4))
    out.append(("eq",))
    out.append(("sizes",))
    out.append(("sameframe",))
    for order in HIST_ORDERS:
        out.append(("hist", order))
    out.append(("threads",))
    return out


def _kindname(desc, fam):
    if desc is None:
        return None
    pre = "Gear" if fam == "gear" else "Device"
    return pre + {"short": "Short", "group": "Group", "broadcast": "Broadcast",
                  "unaddressed": "BroadcastUnaddressed"}[desc[0]]


def _same_addr(obj, desc, fam):
    """Structural comparison independent of the library's __eq__."""
    if obj is None or desc is None:
        return obj is None and desc is None
    got = R.lib_addr(obj)
    return got == (desc, fam) and type(obj).__name__ == _kindname(desc, fam)


def check_gear(res, A, FF, descs, values, tag=""):
    for desc in descs:
        obj = R.lib_mkaddr(desc, "gear")
        bits7 = R.gear_addr_bits(desc)
        for v in values:
            f = FF(16, v)
            obj.add_to_frame(f)
            exp = (v & 0x01FF) | (bits7 << 9)
            case = {"t": "gear_rw" + tag, "addr": list(desc), "v": v}
            if f.as_integer != exp or len(f) != 16:
                add_violation(res, f"C04:gear-write:{desc[0]}", f"{desc} into {v:#06x} -> {f.as_integer:#06x}, expected {exp:#06x}", case)
                continue
            back = A.from_frame(f)
            if not _same_addr(back, desc, "gear"):
                add_violation(res, f"C04:gear-readback:{desc[0]}", f"{desc} written into {v:#06x} reads back {back}", case)
            elif not (back == obj and obj == back) or (back != obj):
                add_violation(res, f"C04:gear-readback-eq:{desc[0]}", f"read-back object not == original for {desc}", case)
        res["evaluations"] += len(values)
        res["distinct"].add(("gear", desc[0]))


def check_dev(res, A, FF, descs, frames, tag=""):
    for desc in descs:
        obj = R.lib_mkaddr(desc, "device")
        bits7 = R.dev_addr_bits(desc)
        for v in frames:
            f = FF(24, v)
            obj.add_to_frame(f)
            exp = (v & 0x01FFFF) | (bits7 << 17)
            case = {"t": "dev_rw" + tag, "addr": list(desc), "v": v}
            if f.as_integer != exp or len(f) != 24:
                add_violation(res, f"C04:dev-write:{desc[0]}", f"{desc} into {v:#08x} -> {f.as_integer:#08x}, expected {exp:#08x}", case)
                continue
            back = A.from_frame(f)
            if v & 0x10000:
                if not _same_addr(back, desc, "device"):
                    add_violation(res, f"C04:dev-readback:{desc[0]}", f"{desc} written into {v:#08x} reads back {back}", case)
                elif not (back == obj and obj == back) or (back != obj):
                    add_violation(res, f"C04:dev-readback-eq:{desc[0]}", f"read-back object not == original for {desc}", case)
            elif back is not None:
                add_violation(res, "C04:event-frame-has-address", f"event frame {f.as_integer:#08x} reads address {back}", case)
        res["evaluations"] += len(frames)
        res["distinct"].add(("device", desc[0]))


def check_inst(res, A, FF, descs, frames, tag=""):
    for desc in descs:
        obj = R.lib_mkinstance(desc)
        b = R.instance_byte(desc)
        for v in frames:
            f = FF(24, v)
            obj.add_to_frame(f)
            exp = (v & 0xFF00FF) | (b << 8)
            case = {"t": "inst_rw" + tag, "inst": list(desc), "v": v}
            if f.as_integer != exp or len(f) != 24:
                add_violation(res, f"C04:inst-write:{desc[0]}", f"{desc} into {v:#08x} -> {f.as_integer:#08x}", case)
                continue
            back = A.instance_from_frame(f)
            if back is None or R.lib_instance(back) != desc:
                add_violation(res, f"C04:inst-readback:{desc[0]}", f"{desc} reads back {back}", case)
            elif not (back == obj and obj == back) or (back != obj):
                add_violation(res, f"C04:inst-readback-eq:{desc[0]}", f"instance read back from the frame is not == the {desc[0]} object that was written", case)
        res["evaluations"] += len(frames)
        res["distinct"].add(("instance", desc[0]))


HIST_ORDERS = [("raw", "gear", "dev", "inst"), ("raw", "inst", "dev", "gear"), ("gear", "raw", "inst", "dev"),
               ("dev", "gear", "raw", "inst"), ("inst", "raw", "gear", "dev"), ("dev", "inst", "gear", "raw")]


def raw_prelude(Frame):
    """Every slice / bit write and read with hi <= 31 on frames of widths 8, 16, 24, 32: whatever the frame class may
    remember across objects (keyed by indices, not by width) is populated from every other width first."""
    n = 0
    for w in (8, 16, 24, 32):
        for hi in range(w):
            for lo in range(hi + 1):
                f = Frame(w, (1 << w) - 1)
                f[hi:lo] = 0
                f[hi:lo]
                n += 1
            f = Frame(w)
            f[hi] = 1
            f[hi]
            f.pack, f.as_integer, f.as_byte_sequence
    return n


def run_history(res, A, FF, Frame, order):
    """The codec is checked again from NON-initial process states: the three families and a raw-slice prelude in
    several orders inside one process (reduced frame sets; the per-family shards cover the full sets from a fresh process)."""
    gv = sorted(set(list(range(0, 65536, 257)) + [0, 0xFFFF, 0x01FF, 0xFE00, 0x5A5A, 0xA5A5]))
    dv = [(a << 16) | l for a in (0x00, 0x01, 0x5B, 0xFE, 0xFF) for l in (0x0000, 0xFFFF, 0x5AA5, 0x00FF, 0xFF00)]
    tag = ":after:" + ">".join(order)
    for step in order:
        if step == "raw":
            res["evaluations"] += raw_prelude(Frame)
        elif step == "gear":
            check_gear(res, A, FF, GEAR, gv, tag)
        elif step == "dev":
            check_dev(res, A, FF, DEV, dv, tag)
        else:
            check_inst(res, A, FF, INST, dv, tag)


def run_shard(shard):
    from dali import address as A
    from dali.frame import ForwardFrame as FF, Frame
    from dali.exceptions import IncompatibleFrame
    res = new_result()
    k = shard[0]
    if k == "gear_rw":
        check_gear(res, A, FF, GEAR[shard[1]:shard[2]], range(65536))
        sample(res, {"gear_rw": [list(d) for d in GEAR[shard[1]:shard[2]]], "frames": 65536})
    elif k == "dev_rw":
        tier = shard[3]
        if tier == "quick":
            frames = [(u << 8) | 0x5A for u in range(65536)] + \
                     [(a << 16) | l for a in (0x00, 0x01, 0xFE, 0xFF) for l in range(0, 65536, 16)]
        else:
            frames = [(u << 8) | l for l in (0x00, 0x5A, 0xA5, 0xFF) for u in range(65536)] + \
                     [(a << 16) | l for a in (0x00, 0x01, 0x7E, 0x7F, 0x80, 0x81, 0xFE, 0xFF) for l in range(65536)]
        check_dev(res, A, FF, DEV[shard[1]:shard[2]], frames)
        sample(res, {"dev_rw": [list(d) for d in DEV[shard[1]:shard[2]]], "frames": len(frames)})
    elif k == "inst_rw":
        frames = [(0x5A << 16) | l for l in range(65536)] + [(a << 16) | 0x1234 for a in range(256)] + \
                 [(a << 16) | 0xFFFF for a in range(256)]
        check_inst(res, A, FF, INST[shard[1]:shard[2]], frames)
        sample(res, {"inst_rw": [list(d) for d in INST[shard[1]:shard[2]]], "frames": len(frames)})
    elif k == "threads":
        # two threads decoding at once, from a never-used library (every k in a fresh forked child): thread A is suspended
        # after each of its source lines inside the library in turn, thread B decodes a set of frames meanwhile
        from dalimc.core.preempt import one_preemption
        from dalimc.core import repo
        probes = [(16, 0x0B00), (16, 0x8705), (16, 0xFF00), (16, 0xFD21), (16, 0xA300), (24, 0x0B0000 | 0x10000), (24, 0x8701FE), (24, 0xFF0000 | 0x10000),
                  (24, 0xFD0130), (24, 0xC10000), (24, 0x0A0402), (8, 0x55)]

        def describe(bits, v):
            o = A.from_frame(FF(bits, v))
            i = A.instance_from_frame(FF(bits, v)) if bits == 24 else None
            return (None if o is None else (type(o).__name__, R.lib_addr(o)[0]), None if i is None else R.lib_instance(i))
        from dalimc.core.preempt import _in_fork
        # sequential reference - computed in a forked child too: THIS process must not use the decoder before the children are forked
        want = _in_fork(lambda: [describe(b, v) for b, v in probes])
        for first in ((16, 0x0B00), (24, 0x8701FE), (24, 0x0B0130)):
            wa = _in_fork(lambda: describe(*first))
            for r in one_preemption(lambda: describe(*first), lambda: [describe(b, v) for b, v in probes], repo.REPO):
                res["evaluations"] += 1
                res["transitions"] += 1
                case = {"t": "threads", "first": list(first), "k": r["k"]}
                if r["a"] != ("v", wa):
                    add_violation(res, "C04:threads:first-decoder-wrong", f"thread A decoding {first} (suspended after line {r['k']}): {r['a']}, expected {wa}", case)
                if r["preempted"] and r["b"] != ("v", want):
                    bad = [(p, g, w_) for p, g, w_ in zip(probes, (r["b"][1] if r["b"] and r["b"][0] == "v" else [None] * len(probes)), want) if g != w_]
                    add_violation(res, "C04:threads:second-decoder-wrong", f"thread A decoding {first} suspended after its line {r['k']} in the library; thread B "
                                  f"meanwhile decoded (frame, got, expected) {bad[:3]} / {r['b'] if not bad else ''}", case)
            res["distinct"].add(("threads", first))
        sample(res, {"threads": "one preemption at every library line of the first decode; second thread decodes 12 frames"})
    elif k == "hist":
        run_history(res, A, FF, Frame, shard[1])
        sample(res, {"history_order": list(shard[1])})
    elif k == "part16":
        kinds = [c for c in A.Address._addrtypes if c.__name__ not in ("GearAddress", "DeviceAddress")]
        for v in range(65536):
            f = FF(16, v)
            exp = R.gear_addr(v >> 9)
            got = A.from_frame(f)
            case = {"t": "part16", "v": v}
            if not _same_addr(got, exp, "gear"):
                add_violation(res, "C04:partition16", f"address of {v:#06x} -> {got}, reference {exp}", case)
            matches = [c.__name__ for c in kinds if c.from_frame(f) is not None]
            if len(matches) > 1 or (exp is None) != (len(matches) == 0):
                add_violation(res, "C04:partition16-exclusive", f"{v:#06x} matched kinds {matches}, reference {exp}", case)
            if f.as_integer != v:
                add_violation(res, "C04:read-mutates", "from_frame changed the frame", case)
            res["distinct"].add(("p16", None if exp is None else exp[0]))
        res["evaluations"] += 65536
        sample(res, {"partition16": "all 65536 frames"})
    elif k in ("part24q", "part24"):
        kinds = [c for c in A.Address._addrtypes if c.__name__ not in ("GearAddress", "DeviceAddress")]
        if k == "part24q":
            gen = [(u << 8) | l for l in (0x00, 0x5A, 0xFF) for u in range(65536)]
        else:
            gen = range(shard[1] << 16, shard[2] << 16)
        n = 0
        for v in gen:
            f = FF(24, v)
            exp = R.dev_addr(v >> 17) if v & 0x10000 else None
            got = A.from_frame(f)
            case = {"t": "part24", "v": v}
            if not _same_addr(got, exp, "device"):
                add_violation(res, "C04:partition24", f"address of {v:#08x} -> {got}, reference {exp}", case)
            if k == "part24q" or (v & 0xFF) in (0, 0xFF):
                matches = [c.__name__ for c in kinds if c.from_frame(f) is not None]
                if len(matches) > 1 or (exp is None) != (len(matches) == 0):
                    add_violation(res, "C04:partition24-exclusive", f"{v:#08x} matched kinds {matches}, reference {exp}", case)
            ib = (v >> 8) & 0xFF
            gi = A.instance_from_frame(f)
            if gi is None or R.lib_instance(gi) != R.instance_kind(ib):
                add_violation(res, "C04:instance-partition", f"instance byte {ib:#04x} -> {gi}, reference {R.instance_kind(ib)}", case)
            n += 1
            res["distinct"].add(("p24", None if exp is None else exp[0], R.instance_kind(ib)[0]))
        res["evaluations"] += n
        sample(res, {"partition24": n})
    elif k == "eq":
        objs = [(d, "gear", R.lib_mkaddr(d, "gear")) for d in GEAR] + [(d, "device", R.lib_mkaddr(d, "device")) for d in DEV]
        objs2 = [(d, "gear", R.lib_mkaddr(d, "gear")) for d in GEAR] + [(d, "device", R.lib_mkaddr(d, "device")) for d in DEV]
        for (d1, f1, o1), (d2, f2, o2) in itertools.product(objs, objs2):
            exp = (d1, f1) == (d2, f2)
            if (o1 == o2) is not exp or (o1 != o2) is not (not exp):
                add_violation(res, f"C04:addr-eq:{f1}-{d1[0]}", f"{f1}{d1} == {f2}{d2} -> {o1 == o2}, expected {exp}",
                              {"t": "eq", "a": [f1, list(d1)], "b": [f2, list(d2)]})
            res["evaluations"] += 1
        for d, fam, o in objs:
            for other in (d[1] if len(d) > 1 else 0, None, "x", d):
                if o == other:
                    add_violation(res, "C04:addr-eq-nonaddress", f"{fam}{d} == {other!r}", {"t": "eq", "a": [fam, list(d)], "b": repr(other)})
        inst = [(d, R.lib_mkinstance(d)) for d in INST]
        inst2 = [(d, R.lib_mkinstance(d)) for d in INST]
        for (d1, o1), (d2, o2) in itertools.product(inst, inst2):
            exp = d1 == d2
            if (o1 == o2) is not exp or (o1 != o2) is not (not exp):
                add_violation(res, f"C04:inst-eq:{d1[0]}", f"instance {d1} == {d2} -> {o1 == o2}, expected {exp}",
                              {"t": "eq-inst", "a": list(d1), "b": list(d2)})
            res["evaluations"] += 1
        # equality and encoding must agree for one OBJECT over its life: an address object whose public number attribute
        # is re-assigned compares equal to a fresh object of the new number - then it must also WRITE that number, and what
        # is read back from the frame must be equal to it (an object that cannot be re-assigned is fine: nothing to check)
        for fam, kind, attr, n, bits in (("gear", "short", "address", 64, 16), ("gear", "group", "group", 16, 16),
                                         ("device", "short", "address", 64, 24), ("device", "group", "group", 32, 24)):
            for a in range(n):
                for b in ((a + 1) % n, (a + n // 2) % n, 0, n - 1):
                    o = R.lib_mkaddr((kind, a), fam)
                    f0 = FF(bits, 0x10000 if bits == 24 else 0)
                    o.add_to_frame(f0)              # (a first write, so that anything computed lazily exists)
                    try:
                        setattr(o, attr, b)
                    except Exception:
                        continue
                    fresh = R.lib_mkaddr((kind, b), fam)
                    res["evaluations"] += 1
                    if not (o == fresh):
                        continue                    # the library does not treat the attribute as the object's number
                    f1, f2 = FF(bits, 0x10000 if bits == 24 else 0), FF(bits, 0x10000 if bits == 24 else 0)
                    o.add_to_frame(f1)
                    fresh.add_to_frame(f2)
                    back = A.from_frame(f1)
                    if f1.as_integer != f2.as_integer or not (back == o):
                        add_violation(res, f"C04:retargeted-object:{fam}-{kind}",
                                      f"{fam} {kind} object built as {a}, re-assigned to {b}: equal to a fresh {kind} {b}, but writes {f1.as_integer:#x} "
                                      f"(fresh object writes {f2.as_integer:#x}) and reads back as {back}", {"t": "eq", "a": [fam, [kind, a]], "b": [fam, [kind, b]]})
        # what a DECODE hands out belongs to the caller: re-assigning the number of an object that from_frame returned
        # (e.g. to forward the command elsewhere) must not change what a later, fresh frame with the same bits reads as
        for fam, kind, attr, n, bits in (("gear", "short", "address", 64, 16), ("gear", "group", "group", 16, 16),
                                         ("device", "short", "address", 64, 24), ("device", "group", "group", 32, 24)):
            for a in range(n):
                for b in ((a + 1) % n, (a + n // 2) % n):
                    f0 = FF(bits, 0x10000 if bits == 24 else 0)
                    R.lib_mkaddr((kind, a), fam).add_to_frame(f0)
                    v = f0.as_integer
                    for via in (A.from_frame, type(R.lib_mkaddr((kind, a), fam)).from_frame):
                        d = via(FF(bits, v))
                        try:
                            setattr(d, attr, b)
                        except Exception:
                            continue
                        res["evaluations"] += 1
                        again = via(FF(bits, v))
                        if not _same_addr(again, (kind, a), fam):
                            add_violation(res, f"C04:decoded-object-shared:{fam}-{kind}",
                                          f"{fam} frame {v:#x} decoded, the returned object's .{attr} re-assigned {a} -> {b}; a fresh frame with the same bits "
                                          f"then reads as {again}, the bits denote {kind} {a}", {"t": "eq", "a": [fam, [kind, a]], "b": [fam, [kind, b]]})
                        if again is not None and again is d:
                            setattr(d, attr, a)
        res["distinct"].add(("eq", "decoded-object-reassigned"))
        res["distinct"].add(("eq", "pairs"))
        res["distinct"].add(("eq", "inst-pairs"))
        sample(res, {"eq_pairs": len(objs) ** 2, "instance_pairs": len(inst) ** 2})
    elif k == "sameframe":
        # ONE frame object written and read over and over: every read reflects the bits the frame holds NOW (a frame is
        # mutable; nothing may be remembered per frame object)
        n = 0
        for v0 in (0x000000, 0xFFFFFF, 0x01A5C3):
            f = FF(24, v0)
            for b in list(range(256)) + [0xFE, 0x00, 0xFF, 0x45, 0x00]:
                f[15:8] = b
                got = A.instance_from_frame(f)
                n += 1
                if got is None or R.lib_instance(got) != R.instance_kind(b):
                    add_violation(res, "C04:same-frame:instance-read-stale", f"one 24-bit frame object: instance byte set to {b:#04x} (raw slice write), "
                                  f"instance_from_frame gives {got}, the byte denotes {R.instance_kind(b)}", {"t": "sameframe"})
                    break
            f = FF(24, v0)
            seq = INST + INST[::-1] + INST[::7]
            for desc in seq:
                obj = R.lib_mkinstance(desc)
                A.instance_from_frame(f)                      # read BEFORE the write as well
                obj.add_to_frame(f)
                got = A.instance_from_frame(f)
                n += 1
                if got is None or R.lib_instance(got) != desc or not (got == obj):
                    add_violation(res, "C04:same-frame:instance-read-stale", f"one 24-bit frame object: {desc} written after other instances, read back {got} "
                                  f"(frame {f.as_integer:#08x})", {"t": "sameframe"})
                    break
            f = FF(24, v0 | 0x010000)
            for desc in DEV + DEV[::-1] + DEV[::5]:
                obj = R.lib_mkaddr(desc, "device")
                A.from_frame(f)
                obj.add_to_frame(f)
                got = A.from_frame(f)
                n += 1
                if not _same_addr(got, desc, "device") or not (got == obj):
                    add_violation(res, "C04:same-frame:address-read-stale", f"one 24-bit frame object: {desc} written after other addresses, read back {got}", {"t": "sameframe"})
                    break
            f = FF(16, v0 & 0xFFFF)
            for desc in GEAR + GEAR[::-1] + GEAR[::5]:
                obj = R.lib_mkaddr(desc, "gear")
                A.from_frame(f)
                obj.add_to_frame(f)
                got = A.from_frame(f)
                n += 1
                if not _same_addr(got, desc, "gear") or not (got == obj):
                    add_violation(res, "C04:same-frame:address-read-stale", f"one 16-bit frame object: {desc} written after other addresses, read back {got}", {"t": "sameframe"})
                    break
            for a7 in list(range(128)) * 2:
                f[15:9] = a7
                got = A.from_frame(f)
                n += 1
                want = R.gear_addr(a7)
                if (got is None) != (want is None) or (want is not None and not _same_addr(got, want, "gear")):
                    add_violation(res, "C04:same-frame:address-read-stale", f"one 16-bit frame object: address bits set to {a7:#04x}, from_frame gives {got}, the bits denote {want}",
                                  {"t": "sameframe"})
                    break
        # objects an application has decorated with attributes of its own (a label on the object to be sent, a timestamp on a
        # decoded one): equality is "kind and number agree", read-back included
        for fam, descs in (("inst", INST), ("gear", GEAR[::5] + GEAR[-2:]), ("device", DEV[::6] + DEV[-2:])):
            for desc in descs:
                mk = (lambda: R.lib_mkinstance(desc)) if fam == "inst" else (lambda: R.lib_mkaddr(desc, fam))
                a, b = mk(), mk()
                a.label = "entrance"
                bits = 16 if fam == "gear" else 24
                f = FF(bits, 0x010000 if bits == 24 else 0)
                a.add_to_frame(f)
                back = A.instance_from_frame(f) if fam == "inst" else A.from_frame(f)
                n += 1
                ok = (a == b) and (b == a) and not (a != b) and (back == a) and (a == back)
                if back is not None:
                    back.seen_at = 12.5
                    ok = ok and (back == b) and (b == back) and (back == a)
                if not ok:
                    add_violation(res, "C04:eq:decorated-object", f"{desc}: an object carrying an application attribute is no longer equal to an undecorated "
                                  f"object of the same kind and number / to the object read back from its own frame ({a!r} vs {b!r} vs {back!r})", {"t": "sameframe"})
        res["evaluations"] += n
        res["distinct"].add(("sameframe", "ok"))
        sample(res, {"same_frame_object_rewritten": n})
    elif k == "sizes":
        reps_g = [("short", 0), ("short", 63), ("group", 0), ("group", 15), ("broadcast",), ("unaddressed",)]
        reps_d = [("short", 0), ("short", 63), ("group", 0), ("group", 31), ("broadcast",), ("unaddressed",)]
        reps_i = [("InstanceNumber", 3), ("InstanceGroup", 31), ("InstanceType", 1), ("FeatureInstanceNumber", 0),
                  ("FeatureInstanceGroup", 5), ("FeatureInstanceType", 31), ("FeatureInstanceBroadcast",),
                  ("InstanceBroadcast",), ("FeatureDevice",), ("Device",), ("ReservedInstance", 0x40)]
        todo = [(d, "gear", 16, R.lib_mkaddr(d, "gear")) for d in reps_g] + \
               [(d, "device", 24, R.lib_mkaddr(d, "device")) for d in reps_d] + \
               [(d, "inst", 24, R.lib_mkinstance(d)) for d in reps_i]
        for d, fam, right, obj in todo:
            for bits in range(1, 65):
                if bits == right:
                    continue
                for v in (0, (1 << bits) - 1, int("10" * 33, 2) & ((1 << bits) - 1)):
                    for cls in (FF, Frame):
                        f = cls(bits, v)
                        case = {"t": "sizes", "fam": fam, "d": list(d), "bits": bits, "v": v}
                        try:
                            obj.add_to_frame(f)
                            add_violation(res, f"C04:wrong-size-accepted:{fam}", f"{fam}{d} written into a {bits}-bit frame", case)
                        except IncompatibleFrame:
                            pass
                        except Exception as e:
                            add_violation(res, f"C04:wrong-size-exception:{fam}", f"{fam}{d} into {bits} bits raised {e!r}", case)
                        if f.as_integer != v or len(f) != bits:
                            add_violation(res, f"C04:wrong-size-mutated:{fam}", f"{bits}-bit frame modified by refused write", case)
                        res["evaluations"] += 1
                    f = FF(bits, v)
                    if fam != "inst" and type(obj).from_frame(f) is not None:
                        add_violation(res, f"C04:wrong-size-read:{fam}", f"{type(obj).__name__}.from_frame matched a {bits}-bit frame", case)
                    if fam == "inst" and A.instance_from_frame(f) is not None:
                        add_violation(res, "C04:wrong-size-read:inst", f"instance_from_frame matched a {bits}-bit frame", case)
            res["distinct"].add(("sizes", fam, d[0]))
        # the base class refuses everything
        try:
            A.Address().add_to_frame(FF(16, 0))
            add_violation(res, "C04:base-address-accepted", "Address().add_to_frame accepted", {"t": "sizes", "fam": "base", "d": [], "bits": 16, "v": 0})
        except IncompatibleFrame:
            pass
        sample(res, {"sizes": "1..64 x 3 values x {ForwardFrame, Frame}", "objects": len(todo)})
    return res


def replay(case):
    t = case["t"]
    if t == "threads":
        return run_shard(("threads",))["violations"]
    if t == "sameframe":
        return run_shard(("sameframe",))["violations"]
    if ":after:" in t:
        order = tuple(t.split(":after:")[1].split(">"))
        return run_shard(("hist", order))["violations"]
    if t == "gear_rw":
        i = GEAR.index(tuple(case["addr"]))
        vs = run_shard(("gear_rw", i, i + 1))["violations"]
    elif t == "dev_rw":
        i = DEV.index(tuple(case["addr"]))
        vs = run_shard(("dev_rw", i, i + 1, "quick"))["violations"]
    elif t == "inst_rw":
        i = INST.index(tuple(case["inst"]))
        vs = run_shard(("inst_rw", i, i + 1))["violations"]
    elif t == "part16":
        vs = run_shard(("part16",))["violations"]
    elif t == "part24":
        hb = case["v"] >> 16
        vs = run_shard(("part24", hb, hb + 1))["violations"]
    elif t in ("eq", "eq-inst"):
        vs = run_shard(("eq",))["violations"]
    else:
        vs = run_shard(("sizes",))["violations"]
    return vs
