"""C09 - memory-bank reads return the declared bytes and leave the unit untouched.

E2: the real read / read_raw / read_all / is_addressable generators closed with a spec-model
bus unit (gear or control device) holding a memory image; environment choices (live-memory
ticks) and faults (silence / framing error at every read answer) are explored with the
deviation-bounded explorer.
"""
from dalimc.core.runner import new_result, add_violation, observe, sample
from dalimc.core.explorer import explore
from dalimc.spec import memory_layout as M
from dalimc.env import gear102 as G, device103 as D, memimage as MI
from .c11 import lib_values
from . import _partner as P

ID = "C09"
OPTIMISED_STRIDE = {"quick": 10, "thorough": 20}      # every k-th shard once more in an interpreter started with -O
TRACE_STRIDE = {"quick": 10, "thorough": 20}      # every k-th shard once more with logging enabled down to TRACE
BYTEORDER_STRIDE = {"quick": 12, "thorough": 24}      # every k-th shard once more with sys.byteorder reporting a big-endian host
CHAIN_STRIDE = {'quick': 12, 'thorough': 40}      # every k-th shard is re-run in chains inside one process (non-initial process states)
LEVEL = "model_checking"
ENGINE = "E2"
TECHNIQUE = "stateless exploration of the real memory-read generators against a spec model of IEC 62386-102 9.10 memory access: all declared values x images x bank shapes, faults and live-memory ticks deviation-bounded"
RULE = ("single reads: every declared value x images x last-accessible-location boundaries x holes x gear/device, one fault "
        "(silence / framing error) at every read answer; whole-bank reads: every bank x images x last-location boundaries x "
        "holes x addressing x latch on/off, with <= d deviations drawn from {live-memory tick before any command, silence, "
        "framing error at any read answer}; states = distinct (value|bank, image, shape) configurations; transitions = commands")
ASSUMPTIONS = [
    "unit model: dalimc.env.gear102.MemBank / device103 (DTR0 auto-increment also for unimplemented locations, READ ignored for an absent bank, writes only while writeEnableState is ENABLED and it is reset by every other command, latch byte 0xAA snapshots the bank)",
    "expected interpretation = reference decoder of C11 applied to the spec image",
    "a silent answer is indistinguishable from an unimplemented location: MemoryLocationNotImplemented (single read) / value omitted (read_all)",
    "'not left latched' is judged on reads that return normally; a bank left latched after read_all raised ResponseError is recorded as an observation",
]
SANITY = ["read_all_runs", "read_all_runs_with_tick", "read_all_runs_with_fault", "read_all_runs_latched",
          "single_reads_with_fault", "single_reads_raising"]
BOUNDS = {"quick": "single reads: 3 images, 1 fault; read_all: 2 images, d<=1; all 64 addresses x gear/device on 5 values + 2 banks", "thorough": "single reads: 6 images, holes at every value location, 1 fault; read_all: 4 images, d<=2 on banks with <= 16 locations, d<=1 otherwise with all last-location boundaries"}

GEAR_ADDR, DEV_ADDR = 3, 5


class MemHarness:
    """One unit (gear or device) + bystander, with tick / fault choice points."""

    def __init__(self, fam, bname, image, last, holes, chooser=None, ticks=False, faults=True, lock_byte=0xFF, sa=None):
        self.fam, self.chooser = fam, chooser
        self.sa = sa if sa is not None else (GEAR_ADDR if fam == "gear" else DEV_ADDR)
        self.bank = MI.make_bank(bname, image, last, holes, lock_byte=lock_byte)
        other = MI.make_bank("BANK_1" if bname != "BANK_1" else "BANK_207", "a5")
        other.cells = [0x5A if (c is not None and i > 2) else c for i, c in enumerate(other.cells)]
        banks = {self.bank.number: self.bank}
        if other.number not in banks:
            banks[other.number] = other
        by = MI.make_bank(bname, "zero")
        if fam == "gear":
            self.unit = G.Gear(short=self.sa, banks=banks)
            self.bus = G.Bus([self.unit, G.Gear(short=(self.sa + 1) % 64, banks={by.number: by})])
        else:
            self.unit = D.Device(short=self.sa, banks=banks)
            self.bus = D.Bus24([self.unit, D.Device(short=(self.sa + 1) % 64, banks={by.number: by})])
        self.ticks, self.faults = ticks, faults
        self.reads = []         # (bank, location, answer given to the sequence) per READ MEMORY LOCATION
        self.latched_at = None  # image copy when the latch byte became 0xAA
        self.data_writes = 0
        self.nticks = 0
        self.injected = []

    def addr(self):
        return MI.make_addr(self.fam, self.sa, getattr(self, "aform", None))

    def execute(self, cmd):
        from dali import frame as F
        ch = self.chooser
        if self.ticks and ch is not None and self.bank.live:
            if ch.choose(2, "tick?") == 1:
                self.bank.tick()
                self.nticks += 1
        name = type(cmd).__name__
        nw = len(self.bank.writes)
        b, l = self.unit.dtr1, self.unit.dtr0
        fr = self.bus.execute(cmd)
        for loc, val in self.bank.writes[nw:]:
            if loc != 2:
                self.data_writes += 1
            elif val == 0xAA and self.bank.snapshot is not None:
                self.latched_at = list(self.bank.snapshot)
        if name == "ReadMemoryLocation":
            if self.faults and ch is not None:
                k = ch.choose(3, f"fault@read{len(self.reads)}", costs=[0, 1, 1])
                if k == 1:
                    fr = None
                    self.injected.append((len(self.reads), "silence"))
                elif k == 2:
                    fr = F.BackwardFrameError(fr.as_integer if fr is not None else 0x00)
                    self.injected.append((len(self.reads), "err"))
            self.reads.append((b, l, None if fr is None else ("err" if fr.error else fr.as_integer)))
        return fr


def expected_single(h, row):
    """('value', bytes) | ('notimpl',) | ('error',) from what the unit actually answered."""
    raw = []
    want = list(range(row[3], row[4] + 1))
    k = 0
    for loc in want:
        # the sequence must have read exactly this location of exactly this bank
        hit = [r for r in h.reads if r[0] == h.bank.number and r[1] == loc]
        if not hit:
            return ("noread", loc)
        a = hit[0][2]
        if a is None:
            return ("notimpl",)
        if a == "err":
            return ("error",)
        raw.append(a)
        k += 1
    return ("value", bytes(raw))


def judge_single(res, cfg, h, row, kind, val, mode):
    if h.injected:
        observe(res, "single_reads_with_fault")
    if kind == "raise":
        observe(res, "single_reads_raising")
    from dali.exceptions import MemoryLocationNotImplemented, ResponseError
    case = dict(cfg, t="single", mode=mode)
    name = row[1]
    # ground truth from the image (no faults): which outcome must occur
    truth = []
    for loc in range(row[3], row[4] + 1):
        truth.append(h.bank.read(loc))
    fault = h.injected[0] if h.injected else None
    if mode == "is_addressable":
        exp = h.bank.last >= row[4] if h.bank.implemented(0) else False
        if fault:
            exp = None
        if kind == "raise" and not (fault and isinstance(val, (ResponseError,))):
            add_violation(res, f"C09:is_addressable-raised:{type(val).__name__}", f"{cfg}: {val!r}", case)
        elif kind == "return" and exp is not None and val is not exp:
            add_violation(res, "C09:is_addressable-wrong", f"{cfg}: returned {val!r}, last accessible {h.bank.last}, value ends at {row[4]}", case)
        elif kind == "return" and fault and fault[1] == "silence" and val is not False:
            add_violation(res, "C09:is_addressable-wrong", f"{cfg}: silence on location 0 but returned {val!r}", case)
        return
    # position of the first problem in reading order
    exp = None
    for i, b in enumerate(truth):
        if fault and fault[0] == i:
            exp = ("notimpl",) if fault[1] == "silence" else ("error",)
            break
        if b is None:
            exp = ("notimpl",)
            break
    if exp is None:
        exp = ("value", bytes(truth))
    if exp[0] == "value":
        want = exp[1] if mode == "read_raw" else M.ref_decode(row, exp[1])
        got = val if mode == "read_raw" else M.lib_norm(val)
        if kind != "return" or got != want or type(got) is not type(want):
            add_violation(res, f"C09:{mode}-wrong:{name}", f"{cfg}: {kind} {val!r}, stored bytes {exp[1].hex()} -> expected {want!r}", case)
    elif exp[0] == "notimpl":
        if kind != "raise" or not isinstance(val, MemoryLocationNotImplemented):
            add_violation(res, f"C09:{mode}-notimplemented-not-raised:{name}", f"{cfg}: {kind} {val!r}; locations read as {truth}", case)
    else:
        if kind != "raise" or not isinstance(val, ResponseError):
            add_violation(res, f"C09:{mode}-framing-error-not-raised:{name}", f"{cfg}: {kind} {val!r}", case)
    if h.data_writes or h.bank.cells[2] == 0xAA:
        add_violation(res, f"C09:{mode}-modified-memory:{name}", f"{cfg}: the read changed the unit's memory", case)


def run_single(cfg, ch):
    vals = lib_values()
    row = M.by_name()[(cfg["bank"], cfg["name"])]
    cls = vals[(cfg["bank"], cfg["name"])]
    h = MemHarness(cfg["fam"], cfg["bank"], cfg["image"], cfg["last"], cfg["holes"], ch, ticks=False, faults=True, sa=cfg.get("sa"))
    h.aform = cfg.get("aform")
    mode = cfg["mode"]
    seq = getattr(cls, mode)(h.addr())
    kind, val, n = G.run_sequence(seq, h, 600)
    return h, row, kind, val, n


def judge_all(res, cfg, h, kind, val, n):
    observe(res, "read_all_runs")
    if h.nticks:
        observe(res, "read_all_runs_with_tick")
    if h.injected:
        observe(res, "read_all_runs_with_fault")
    if h.latched_at is not None:
        observe(res, "read_all_runs_latched")
    from dali.exceptions import MemoryLocationNotImplemented, ResponseError
    vals = lib_values()
    bname = cfg["bank"]
    case = dict(cfg, t="all", injected=h.injected, nticks=h.nticks)
    rows = MI.rows_of(bname)
    number = h.bank.number
    use_latch = cfg["use_latch"] and h.bank.has_latch
    err = [i for i in h.injected if i[1] == "err"]
    # the first read is location 0 (last accessible location)
    first = h.reads[0] if h.reads else None
    if first is None or (first[0], first[1]) != (number, 0):
        add_violation(res, f"C09:read_all-protocol:{bname}", f"{cfg}: first read was {first}", case)
        return "protocol"
    if first[2] is None:
        if kind != "raise" or not isinstance(val, MemoryLocationNotImplemented):
            add_violation(res, f"C09:read_all-no-last-address:{bname}", f"{cfg}: location 0 silent but {kind} {val!r}", case)
        return "nolast"
    if err:
        if kind != "raise" or not isinstance(val, ResponseError):
            add_violation(res, f"C09:read_all-framing-error-not-raised:{bname}", f"{cfg}: framing error injected at read {err[0][0]} but {kind} {val!r}", case)
        if h.bank.cells[2] == 0xAA:
            observe(res, "bank_left_latched_after_read_all_raised")
        return "error"
    if kind != "return":
        add_violation(res, f"C09:read_all-raised:{bname}", f"{cfg}: {kind} {val!r}", case)
        return "raise"
    # what the unit answered per location (None = silent / unimplemented)
    answered = {}
    for b, l, a in h.reads[1:]:
        if b == number and l not in answered:
            answered[l] = a
    start = 2 if number == 0 else 3
    if use_latch:
        if h.latched_at is None:
            add_violation(res, f"C09:read_all-not-latched:{bname}", f"{cfg}: latch requested but the latch byte was never set before reading", case)
            return "nolatch"
        source = lambda l: h.latched_at[l] if (l <= h.latched_at[0] and h.latched_at[l] is not None) else None
    else:
        source = None
    expected = {}
    for r in rows:
        if r[3] < start:
            continue
        raw = []
        for l in range(r[3], r[4] + 1):
            a = answered.get(l)
            if source is not None and a is not None and source(l) != a:
                add_violation(res, f"C09:read_all-not-snapshot:{bname}", f"{cfg}: location {l:#x} answered {a}, snapshot at latch time {source(l)}", case)
            raw.append(a)
        if any(a is None for a in raw):
            continue
        expected[r[1]] = M.ref_decode(r, bytes(raw))
    got = {}
    for k, v in val.items():
        got[k.name] = M.lib_norm(v)
    if set(got) != set(expected):
        add_violation(res, f"C09:read_all-keys:{bname}", f"{cfg}: reported {sorted(got)}, implemented {sorted(expected)}", case)
    else:
        for k in got:
            if got[k] != expected[k] or type(got[k]) is not type(expected[k]):
                add_violation(res, f"C09:read_all-value:{bname}:{k}", f"{cfg}: {k} = {got[k]!r}, expected {expected[k]!r}", case)
    # ground truth, independent of what the sequence chose to read: every value whose locations are
    # all implemented must have been read and reported
    for r in rows:
        if r[3] < start:
            continue
        impl = all(h.bank.implemented(l) for l in range(r[3], r[4] + 1))
        silenced = any(("silence" == i[1]) for i in h.injected)
        if impl and r[1] not in got and not silenced:
            add_violation(res, f"C09:read_all-missing:{bname}:{r[1]}", f"{cfg}: {r[1]} is fully implemented but not reported", case)
        if not impl and r[1] in got:
            add_violation(res, f"C09:read_all-phantom:{bname}:{r[1]}", f"{cfg}: {r[1]} reported although a location is unimplemented", case)
    if h.data_writes:
        add_violation(res, f"C09:read_all-modified-memory:{bname}", f"{cfg}: data locations changed", case)
    if not use_latch and h.bank.writes:
        # no latch function (or none requested): a read must not write to the unit at all - the lock byte included
        add_violation(res, f"C09:read_all-writes-without-latch:{bname}",
                      f"{cfg}: bank {number} {'has no latch function' if not h.bank.has_latch else 'was read with use_latch=False'} but read_all wrote "
                      f"{[(hex(l), hex(v)) for l, v in h.bank.writes[:4]]} (lock byte {cfg.get('lock_byte', 0xFF):#x} -> {h.bank.cells[2]:#x})", case)
    if h.bank.cells[2] == 0xAA or h.bank.snapshot is not None:
        add_violation(res, f"C09:read_all-left-latched:{bname}", f"{cfg}: bank {number} is still latched (lock byte {h.bank.cells[2]:#x}) after read_all returned", case)
    return "ok"


def run_all(cfg, ch):
    import importlib
    mod = M.BANKS[cfg["bank"]][0]
    bank = getattr(importlib.import_module("dali.memory." + mod), cfg["bank"])
    h = MemHarness(cfg["fam"], cfg["bank"], cfg["image"], cfg["last"], cfg["holes"], ch, ticks=cfg["ticks"], faults=True,
                   lock_byte=cfg.get("lock_byte", 0xFF), sa=cfg.get("sa"))
    h.aform = cfg.get("aform")
    seq = bank.read_all(h.addr(), use_latch=cfg["use_latch"])
    kind, val, n = G.run_sequence(seq, h, 900)
    return h, kind, val, n


# ----------------------------------------------------------------------------- enumeration

def last_options(bname, row, tier):
    deflast = M.BANKS[bname][2]
    opts = {deflast, 2, 3, 254}
    if row is not None:
        opts.update(x for x in (row[3] - 1, row[3], row[4] - 1, row[4], row[4] + 1) if 0 <= x <= 254)
    else:
        rows = MI.rows_of(bname)
        sel = rows if tier == "thorough" else [rows[len(rows) // 2], rows[-1]]
        for r in sel:
            opts.update(x for x in (r[3] - 1, r[4], r[4] + 1) if 2 <= x <= 254)
    if tier == "thorough" and row is not None and bname in ("BANK_0", "BANK_1", "BANK_205"):
        opts.update(range(0, 255, 17))
    return sorted(opts)


def hole_options(row, tier):
    locs = list(range(row[3], row[4] + 1))
    opts = [()]
    cand = {row[3], row[4]}
    if tier == "thorough":
        cand.update(locs)
        cand.update({row[3] - 1, row[4] + 1})
    for c in sorted(cand):
        if 1 <= c <= 254:
            opts.append((c,))
    return opts


def shards(tier):
    out = []
    for r in M.VALUES:
        out.append(("single", r[0], r[1], tier))
    for bname in M.BANKS:
        for fam in ("gear", "device"):
            for latch in (True, False):
                out.append(("all", bname, fam, latch, tier))
    for a0 in range(0, 64, 16):
        out.append(("addr_sweep", a0, a0 + 16))
    out += P.partner_shards(PARTNERS)
    out.append(("declare-between-reads",))
    out.append(("user-layouts",))
    return out


def run_addr_sweep(res, lo, hi):
    """The same reads addressed to EVERY short address (gear and device): nothing may depend on which unit is read."""
    singles = [("BANK_0", "GTIN"), ("BANK_0", "LastAddress"), ("BANK_1", "LuminaireColor"), ("BANK_205", "ControlGearTemperature"),
               ("BANK_202", "ActiveEnergy")]
    byname = M.by_name()
    singles = [k for k in singles if k in byname] or list(byname)[:4]
    for sa in range(lo, hi):
        for fam, aform in (("gear", None), ("device", None), ("gear", "int"), ("gear", "subclass"), ("device", "subclass")):
            if aform is not None and sa % 16 not in (0, 5, 15):
                continue                      # other spellings of the address: boundary and middle addresses of every block
            for bname, name in singles:
                row = byname[(bname, name)]
                for mode in ("read", "read_raw", "is_addressable"):
                    cfg = dict(bank=bname, name=name, image="rnd1", last=None, holes=[], fam=fam, mode=mode, sa=sa, aform=aform)
                    for ch, obs in explore(lambda c: run_single(cfg, c), bound=1 if mode == "read" else 0):
                        h, row_, kind, val, n = obs
                        judge_single(res, cfg, h, row, kind, val, mode)
                        res["evaluations"] += 1
                        res["transitions"] += n
            for bname in ("BANK_0", "BANK_202"):
                for latch in (True, False):
                    cfg = dict(bank=bname, fam=fam, image="rnd1", last=None, holes=[], use_latch=latch, ticks=False, sa=sa, aform=aform)
                    h, kind, val, n = run_all(cfg, None)
                    judge_all(res, cfg, h, kind, val, n)
                    res["evaluations"] += 1
                    res["transitions"] += n
    res["distinct"].add(("addr_sweep", lo))
    sample(res, {"address_sweep": [lo, hi - 1], "families": ["gear", "device"], "address_spellings": ["address object", "int (gear)", "subclass instance"]})


def _partner_read_all():
    import importlib
    bank = getattr(importlib.import_module("dali.memory." + M.BANKS["BANK_202"][0]), "BANK_202")
    h = MemHarness("gear", "BANK_202", "rnd2", None, [], None, ticks=False, faults=False, sa=9)
    return bank.read_all(h.addr(), use_latch=True), h, lambda: list(h.bank.cells)


def _partner_read():
    cls = lib_values()[("BANK_0", "GTIN")]
    h = MemHarness("device", "BANK_0", "rnd1", None, [], None, ticks=False, faults=False, sa=11)
    return cls.read(h.addr()), h, lambda: list(h.bank.cells)


PARTNERS = [("BANK_202.read_all(latched)", _partner_read_all), ("BANK_0 GTIN.read (device)", _partner_read)]
PARTNERED = [("single", "BANK_0", "GTIN", "quick"), ("single", "BANK_1", "LuminaireID", "quick"), ("all", "BANK_202", "gear", True, "quick"),
             ("all", "BANK_0", "device", False, "quick"), ("all", "BANK_1", "gear", True, "quick")]


def run_declare_between_reads(res):
    """A bank is read, a further value is declared on it (the documented extension point: vendor values in the
    manufacturer-specific area), the bank is read again: the second reading reports exactly the values whose locations are all
    implemented - the new one included - each as read alone.  Fresh user banks (gear, device, one with a latch)."""
    from dali.memory.location import MemoryBank, MemoryLocation, MemoryType, NumericValue
    n = 0
    # (fresh bank objects of this shard only: the library's own banks are not touched)
    for number, fam, has_latch, locs in ((9, "gear", False, (0x20, 0x21, 0x22)), (10, "device", False, (0x30,)), (11, "gear", True, (0x18, 0x19))):
        bank = MemoryBank(number, 0x40, has_latch=has_latch)
        type("UserFirst", (NumericValue,), {"bank": bank, "locations": (MemoryLocation(0x10, type_=MemoryType.ROM), MemoryLocation(0x11, type_=MemoryType.ROM))})
        bname = None

        def mkharness():
            h = MemHarness(fam, "BANK_0", "rnd1", None, [], None, ticks=False, faults=False, sa=9)
            cells = [0x40, 0x00, 0xFF] + [(7 * i + 3) & 0xFF for i in range(3, 256)]
            ub = G.MemBank(number, cells, writable=set(), lockable=set(), has_lock=False, has_latch=has_latch)
            h.unit.banks = {number: ub}
            h.bank = ub
            return h
        case = {"t": "declare-between-reads", "bank": f"user bank {number}", "fam": fam, "latch": has_latch}
        h = mkharness()
        k1, v1, _ = G.run_sequence(bank.read_all(h.addr()), h, 900)
        cls = type("VendorValue%d" % n, (NumericValue,), {"bank": bank, "locations": tuple(MemoryLocation(a, type_=MemoryType.ROM) for a in locs)})
        h = mkharness()
        ka, va, _ = G.run_sequence(cls.read(h.addr()), h, 900)
        want = int.from_bytes(bytes(h.bank.cells[a] for a in locs), "big")
        h = mkharness()
        k2, v2, _ = G.run_sequence(bank.read_all(h.addr()), h, 900)
        n += 1
        res["evaluations"] += 3
        if k1 != "return" or k2 != "return" or ka != "return":
            add_violation(res, "C09:declare-between-reads:raised", f"{case}: read_all {k1} {v1!r}; value alone {ka} {va!r}; read_all again {k2} {v2!r}", case)
            continue
        if va != want:
            add_violation(res, "C09:declare-between-reads:value-alone", f"{case}: {cls.__name__}.read -> {va!r}, stored {want}", case)
        missing = [c.__name__ for c in list(v1) + [cls] if c not in v2]
        wrong = [c.__name__ for c in v1 if c in v2 and v1[c] != v2[c]] + ([cls.__name__] if cls in v2 and v2[cls] != va else [])
        if missing or wrong or len(v2) != len(v1) + 1:
            add_violation(res, "C09:declare-between-reads:read_all", f"{case}: value {cls.__name__} at {[hex(a) for a in locs]} declared after a first read_all: the second read_all "
                          f"misses {missing}, differs on {wrong}; it reports {sorted(c.__name__ for c in v2)}", case)
        res["distinct"].add(("declare-between-reads", number, fam))
    sample(res, {"declare_between_reads": n})


def run_user_layouts(res):
    """User-declared values whose locations are 'in the order required by the value' but not contiguous-ascending (LSB first,
    with a gap), declared with and without the optional type_, at implemented locations, at a hole and beyond the last
    accessible location: single reads, read_all and from_list agree with the bytes at the DECLARED addresses in declared order."""
    from dali.memory.location import MemoryBank, MemoryLocation, MemoryType, NumericValue
    from dali.exceptions import MemoryLocationNotImplemented
    n = 0
    for fam in ("gear", "device"):
        for with_type in (True, False):
            bank = MemoryBank(12, 0x40)

            def loc(a):
                return MemoryLocation(a, type_=MemoryType.ROM) if with_type else MemoryLocation(address=a)
            decls = {"Contig": (0x10, 0x11), "LsbFirst": (0x13, 0x12), "Split": (0x20, 0x22), "Reversed3": (0x2A, 0x29, 0x28), "AtHole": (0x18,),
                     "HoleInside": (0x1A, 0x1B), "Beyond": (0x50,), "Straddles": (0x40, 0x41)}
            classes = {nm: type(nm, (NumericValue,), {"bank": bank, "locations": tuple(loc(a) for a in addrs)}) for nm, addrs in decls.items()}

            def mkharness():
                h = MemHarness(fam, "BANK_0", "rnd1", None, [], None, ticks=False, faults=False, sa=9)
                cells = [0x40, 0x00] + [(11 * i + 5) & 0xFF for i in range(2, 256)]
                cells[0x18] = cells[0x1B] = None
                ub = G.MemBank(12, cells, writable=set(), lockable=set(), has_lock=False)
                h.unit.banks = {12: ub}
                h.bank = ub
                return h
            cells = mkharness().bank.cells
            want = {}
            for nm, addrs in decls.items():
                ok = all(a <= 0x40 and cells[a] is not None for a in addrs)
                want[nm] = int.from_bytes(bytes(cells[a] for a in addrs), "big") if ok else None
            case = {"t": "user-layouts", "fam": fam, "with_type": with_type}
            for nm, cls in classes.items():
                h = mkharness()
                kind, val, _ = G.run_sequence(cls.read(h.addr()), h, 200)
                n += 1
                if want[nm] is None:
                    if kind != "raise" or not isinstance(val, MemoryLocationNotImplemented):
                        add_violation(res, f"C09:user-layout:not-implemented:{nm}", f"{case}: {nm} at {[hex(a) for a in decls[nm]]} (holes at 0x18 and 0x1b, last location 0x40): "
                                      f"{kind} {val!r}, expected MemoryLocationNotImplemented", case)
                elif kind != "return" or val != want[nm]:
                    add_violation(res, f"C09:user-layout:read:{nm}", f"{case}: {nm} at {[hex(a) for a in decls[nm]]}: {kind} {val!r}, the bytes there say {want[nm]}", case)
                # the dump path: a list of the bank's bytes
                lst = [c if i <= 0x40 else None for i, c in enumerate(cells)][:255]
                try:
                    got = ("return", cls.from_list(lst))
                except Exception as e:
                    got = ("raise", e)
                if want[nm] is None:
                    if got[0] != "raise" or not isinstance(got[1], MemoryLocationNotImplemented):
                        add_violation(res, f"C09:user-layout:from_list-not-implemented:{nm}", f"{case}: {nm}.from_list: {got}", case)
                elif got != ("return", want[nm]):
                    add_violation(res, f"C09:user-layout:from_list:{nm}", f"{case}: {nm}.from_list at {[hex(a) for a in decls[nm]]}: {got}, the bytes there say {want[nm]}", case)
            h = mkharness()
            kind, val, _ = G.run_sequence(bank.read_all(h.addr()), h, 900)
            n += 1
            exp = {nm: v for nm, v in want.items() if v is not None}
            if kind != "return":
                add_violation(res, "C09:user-layout:read_all-raised", f"{case}: read_all {kind} {val!r}", case)
            else:
                got = {c.__name__: v for c, v in val.items() if c.__name__ in decls}
                if got != exp:
                    add_violation(res, "C09:user-layout:read_all", f"{case}: read_all reports {got}, expected {exp}", case)
            res["distinct"].add(("user-layouts", fam, with_type))
    res["evaluations"] += n
    sample(res, {"user_layout_reads": n})


def run_user_rules(res):
    """User-declared values with RULES of their own ("interpreted by that value's rules"): limits that are exactly 0 (a reserved
    'shall be 0' byte; a signed number that must not be negative), signed scaled numbers, signed MASK / TMASK patterns - read
    alone and through read_all from a gear and a device, for every byte pattern that sits on or next to a boundary."""
    import decimal
    from dali.memory.location import MemoryBank, MemoryLocation, MemoryType, NumericValue, FixedScaleNumericValue, FlagValue
    n = 0
    decls = {
        "ReservedZero": (NumericValue, 1, dict(max_value=0)),
        "NonNegative": (NumericValue, 2, dict(signed=True, min_value=0, max_value=0x7FFD)),
        "AtMostZero": (NumericValue, 1, dict(signed=True, max_value=0)),
        "SignedMasked": (NumericValue, 2, dict(signed=True, mask_supported=True, tmask_supported=True)),
        "SignedTenths": (FixedScaleNumericValue, 2, dict(signed=True, scaling_factor=decimal.Decimal("0.1"), min_value=-400, max_value=1250,
                                                        mask_supported=True, tmask_supported=True)),
        "Plain": (NumericValue, 1, dict(min_value=1, max_value=53)),
    }
    patterns = {1: [0x00, 0x01, 0x05, 0x35, 0x36, 0x7F, 0x80, 0xFE, 0xFF],
                2: [0x0000, 0x0001, 0x04E2, 0x04E3, 0x7FFD, 0x7FFE, 0x7FFF, 0x8000, 0xFE6F, 0xFE70, 0xFE71, 0xFFFE, 0xFFFF]}

    def reference(nm, rv):
        base, width, opt = decls[nm]
        signed = opt.get("signed", False)
        num = int.from_bytes(rv.to_bytes(width, "big"), "big", signed=signed)
        top = (1 << (8 * width - (1 if signed else 0))) - 1
        if opt.get("mask_supported") and rv == top:
            return "MASK"
        if opt.get("tmask_supported") and rv == top - 1:
            return "TMASK"
        lo, hi = opt.get("min_value"), opt.get("max_value")
        if (lo is not None and num < lo) or (hi is not None and num > hi):
            return "Invalid"
        return opt.get("scaling_factor", 1) * num

    for fam in ("gear", "device"):
        bank = MemoryBank(13, 0x40)
        classes, where, a = {}, {}, 0x10
        for nm, (base, width, opt) in decls.items():
            where[nm] = tuple(range(a, a + width))
            classes[nm] = type(nm, (base,), dict(opt, bank=bank, locations=tuple(MemoryLocation(x, type_=MemoryType.ROM) for x in where[nm])))
            a += width + 1
        rounds = max(len(p) for p in patterns.values())
        for rnd in range(rounds):
            stored = {nm: patterns[decls[nm][1]][rnd % len(patterns[decls[nm][1]])] for nm in decls}

            def mkharness():
                h = MemHarness(fam, "BANK_0", "rnd1", None, [], None, ticks=False, faults=False, sa=9)
                cells = [0x40, 0x00] + [(13 * i + 7) & 0xFF for i in range(2, 256)]
                for nm, rv in stored.items():
                    for x, b in zip(where[nm], rv.to_bytes(decls[nm][1], "big")):
                        cells[x] = b
                ub = G.MemBank(13, cells, writable=set(), lockable=set(), has_lock=False)
                h.unit.banks = {13: ub}
                h.bank = ub
                return h
            want = {nm: reference(nm, rv) for nm, rv in stored.items()}
            case = {"t": "user-rules", "fam": fam, "round": rnd}

            def norm(v):
                return v.name if isinstance(v, FlagValue) else v
            for nm, cls in classes.items():
                h = mkharness()
                before = list(h.bank.cells)
                kind, val, _ = G.run_sequence(cls.read(h.addr()), h, 200)
                n += 1
                if kind != "return" or norm(val) != want[nm]:
                    add_violation(res, f"C09:user-rules:read:{nm}", f"{case}: user value {nm} {decls[nm][2]} holding {stored[nm]:#x}: read -> {kind} {val!r}, "
                                  f"its rules say {want[nm]!r}", case)
                if list(h.bank.cells) != before:
                    add_violation(res, f"C09:user-rules:memory-changed:{nm}", f"{case}: reading {nm} changed the unit's memory", case)
            h = mkharness()
            kind, val, _ = G.run_sequence(bank.read_all(h.addr()), h, 900)
            n += 1
            if kind != "return":
                add_violation(res, "C09:user-rules:read_all-raised", f"{case}: read_all {kind} {val!r}", case)
            else:
                got = {c.__name__: norm(v) for c, v in val.items() if c.__name__ in decls}
                if got != want:
                    bad = {k_: (got.get(k_), want[k_]) for k_ in want if got.get(k_) != want[k_]}
                    add_violation(res, "C09:user-rules:read_all", f"{case}: read_all (value: got, expected by its rules) {bad}; stored "
                                  f"{ {k_: hex(stored[k_]) for k_ in bad} }", case)
            res["distinct"].add(("user-rules", fam, tuple(sorted((k_, str(v)) for k_, v in want.items()))))
    res["evaluations"] += n
    sample(res, {"user_rule_reads": n})


def run_shard(shard):
    if shard[0] == "user-layouts":
        res = new_result()
        run_user_layouts(res)
        run_user_rules(res)
        return res
    if shard[0] == "declare-between-reads":
        res = new_result()
        run_declare_between_reads(res)
        return res
    if shard[0] == "partnered":
        import sys
        return P.run_partnered(sys.modules[__name__], shard, PARTNERS, PARTNERED)
    res = new_result()
    k = shard[0]
    if k == "addr_sweep":
        run_addr_sweep(res, shard[1], shard[2])
        return res
    if k == "single":
        _, bname, name, tier = shard
        row = M.by_name()[(bname, name)]
        images = ["index", "rnd1", "ff"] + (["zero", "rnd2", "valid"] if tier == "thorough" else [])
        if row[2] == "scaled":
            images += ["six", "fa"]
        for image in images:
            for last in last_options(bname, row, tier):
                for holes in hole_options(row, tier):
                    for fam in ("gear", "device"):
                        for mode in ("read", "read_raw", "is_addressable"):
                            if mode != "read" and image not in ("index", "rnd1"):
                                continue
                            cfg = dict(bank=bname, name=name, image=image, last=last, holes=list(holes), fam=fam, mode=mode)
                            res["states"] += 1
                            for ch, obs in explore(lambda c: run_single(cfg, c), bound=1):
                                h, row_, kind, val, n = obs
                                judge_single(res, cfg, h, row, kind, val, mode)
                                res["evaluations"] += 1
                                res["traces"] += 1
                                res["transitions"] += n
                                res["distinct"].add((name, mode, kind, type(val).__name__ if kind == "raise" else "v"))
        sample(res, {"single": name, "bank": bname, "images": images})
    else:
        _, bname, fam, latch, tier = shard
        big = bname in ("BANK_0", "BANK_1")
        images = ["index", "rnd1"] + (["ff", "zero"] if tier == "thorough" else [])
        small = M.BANKS[bname][2] <= 16
        bound = 2 if (tier == "thorough" and small) else 1
        rows = MI.rows_of(bname)
        step = 1 if tier == "thorough" and not big else (3 if not big else 6)
        holeset = [()] + [(r[3],) for r in rows if r[3] > 2][::step] + [(rows[-1][4],)]
        lasts = last_options(bname, None, tier)
        if tier == "quick" or (bound == 2) or big:
            lasts = sorted({M.BANKS[bname][2], 3, rows[len(rows) // 2][4], rows[len(rows) // 2][4] + 1, rows[-1][4] - 1})
            holeset = [()] + [(r[3],) for r in rows if r[3] > 2][::5] + [(rows[-1][4],)]
        if big and tier == "quick":
            images = ["index"]
            lasts = sorted({M.BANKS[bname][2], 3, rows[len(rows) // 2][4]})
            holeset = [(), (rows[3][3],)]
        for image in images:
            for last in lasts:
                for holes in (holeset if image == "index" else [()]):
                    for ticks in ((True,) if M.BANKS[bname][4] else (False,)):      # ticks=True includes the no-tick run
                        cfg = dict(bank=bname, image=image, last=last, holes=list(holes), fam=fam, use_latch=latch, ticks=ticks)
                        res["states"] += 1
                        # faults + ticks share the deviation budget
                        for ch, obs in explore(lambda c: run_all(cfg, c), bound=bound):
                            h, kind, val, n = obs
                            r = judge_all(res, cfg, h, kind, val, n)
                            res["evaluations"] += 1
                            res["traces"] += 1
                            res["transitions"] += n
                            res["distinct"].add((bname, fam, latch, r, h.nticks))
        # a bank that somebody left unlocked / oddly latched before
        for lb in (0x55, 0x00):
            if M.BANKS[bname][3] or M.BANKS[bname][4]:
                cfg = dict(bank=bname, image="rnd1", last=None, holes=[], fam=fam, use_latch=latch, ticks=False, lock_byte=lb)
                for ch, obs in explore(lambda c: run_all(cfg, c), bound=0):
                    h, kind, val, n = obs
                    judge_all(res, cfg, h, kind, val, n)
                    res["evaluations"] += 1
                    res["transitions"] += n
        # two units (two buses) whose whole-bank reads are IN PROGRESS at the same time: the bank objects are module-level
        # singletons shared by every unit, a read must not keep its state there
        import importlib
        bank = getattr(importlib.import_module("dali.memory." + M.BANKS[bname][0]), bname)
        for pattern in ((1, 1), (3, 1), (1, 5)):
            cfgs = [dict(bank=bname, image="rnd1", last=None, holes=[], fam=fam, use_latch=latch, ticks=False, sa=3),
                    dict(bank=bname, image="rnd2", last=None, holes=[], fam=fam, use_latch=latch, ticks=False, sa=9)]
            hs = [MemHarness(c["fam"], c["bank"], c["image"], c["last"], c["holes"], None, ticks=False, faults=False, sa=c["sa"]) for c in cfgs]
            outs_ = G.run_interleaved([bank.read_all(h.addr(), use_latch=latch) for h in hs], hs, 900, pattern)
            for c, h, (kind, val, n) in zip(cfgs, hs, outs_):
                c = dict(c, interleaved=list(pattern))
                judge_all(res, c, h, kind, val, n)
                res["evaluations"] += 1
                res["transitions"] += n
        sample(res, {"read_all": bname, "fam": fam, "use_latch": latch, "bound": bound})
    return res


def replay(case):
    if case.get("t") == "user-layouts":
        return run_shard(("user-layouts",))["violations"]
    if case.get("t") == "declare-between-reads":
        return run_shard(("declare-between-reads",))["violations"]
    from dalimc.core.explorer import Chooser
    res = new_result()
    if case["t"] == "single":
        cfg = {k: case[k] for k in ("bank", "name", "image", "last", "holes", "fam", "mode", "sa") if k in case}
        row = M.by_name()[(cfg["bank"], cfg["name"])]
        for ch, obs in explore(lambda c: run_single(cfg, c), bound=1):
            h, row_, kind, val, n = obs
            judge_single(res, cfg, h, row, kind, val, cfg["mode"])
    elif case.get("interleaved"):
        vs = run_shard(("all", case["bank"], case["fam"], case["use_latch"], "quick"))["violations"]
        return [v for v in vs if v["case"].get("interleaved")]
    else:
        cfg = {k: case[k] for k in ("bank", "image", "last", "holes", "fam", "use_latch", "ticks", "sa") if k in case}
        if "lock_byte" in case:
            cfg["lock_byte"] = case["lock_byte"]
        for ch, obs in explore(lambda c: run_all(cfg, c), bound=2 if len(case.get("injected", [])) + case.get("nticks", 0) > 1 else 1):
            h, kind, val, n = obs
            judge_all(res, cfg, h, kind, val, n)
    return res["violations"]
