"""C10 - memory writes store exactly the data or fail loudly; never silently.

E2: the real write_raw / write / latch / unlatch generators closed with a spec-model unit
(gear or control device); one fault of each kind is injected at every answering step
(deviation-bounded), and non-conforming unit variants are enumerated.
"""
from dalimc.core.runner import new_result, add_violation, observe, sample
from dalimc.core.explorer import explore
from dalimc.spec import memory_layout as M
from dalimc.env import gear102 as G, device103 as D, memimage as MI
from .c11 import lib_values
from . import _partner as P

ID = "C10"
OPTIMISED_STRIDE = {"quick": 10, "thorough": 20}      # every k-th shard once more in an interpreter started with -O
TRACE_STRIDE = {"quick": 10, "thorough": 20}      # every k-th shard once more with logging enabled down to TRACE
BYTEORDER_STRIDE = {"quick": 10, "thorough": 20}      # every k-th shard once more with sys.byteorder reporting a big-endian host
CHAIN_STRIDE = {'quick': 10, 'thorough': 30}      # every k-th shard is re-run in chains inside one process (non-initial process states)
LEVEL = "fault_enumeration"
ENGINE = "E2"
TECHNIQUE = "exhaustive fault enumeration: the real memory-write generators against a spec model of IEC 62386-102 9.10, one fault of each kind at every answering step (deviation bound 1/2) and every non-conforming unit variant"
RULE = ("all declared values (non-writable ones must be refused with zero commands sent); writable values x raw data patterns x "
        "initial lock byte {0xFF,0x55,0x00,0xAA} x gear/device x unit variants {standard, unlock value 0x5A, bank too short, DTR0 "
        "not advancing, location read-only} x options {allow_short_write lengths, force_unlock, ignore_feedback}; faults {NO, echo+1, "
        "framing error} at every WRITE answer and {silence, value+1, framing error} at the DTR0 check; "
        "distinct = distinct (value, variant, outcome class)")
ASSUMPTIONS = [
    "unit model: gear102.MemBank (write only while writeEnableState ENABLED; lockable locations need lock byte == unlock value; DTR0 auto-increment)",
    "documented failure exceptions: MemoryLocationNotWriteable, MemoryWriteFailure, ResponseError, MemoryValueNotWriteable, ValueError (length)",
    "a lockable value must end with the bank locked (lock byte != unlock value); for a non-lockable value the lock byte must be unchanged",
    "ignore_feedback=True exempts the caller-requested case; latch/unlatch use it by design",
]
SANITY = ["writes_with_injected_fault", "writes_to_nonconforming_unit", "writes_returning_normally"]
BOUNDS = {"quick": "exactly 1 fault per run, at every answering step; 4 data patterns; short-write lengths {0,1,n-1,n,n+1}; strings of every length 0..n; all 64 addresses x gear/device on 3 values",
          "thorough": "same fault placement for all 6 data patterns; every short-write length 0..n+1"}

DOC_EXC = ("MemoryLocationNotWriteable", "MemoryWriteFailure", "ResponseError", "MemoryValueNotWriteable", "ValueError")
GEAR_ADDR, DEV_ADDR = 3, 5


def patterns(w, tier):
    ps = {"zero": bytes(w), "ff": bytes([0xFF] * w), "index": bytes((7 + 3 * i) & 0xFF for i in range(w)),
          "55": bytes([0x55] * w)}
    if tier == "thorough":
        ps["aa"] = bytes([0xAA] * w)
        ps["fe"] = bytes([0xFF] * (w - 1) + [0xFE])
    return ps


class WHarness:
    def __init__(self, fam, bname, lock_byte, variant, row, chooser, sa=None):
        self.fam, self.chooser, self.variant = fam, chooser, variant
        self.sa = sa if sa is not None else (GEAR_ADDR if fam == "gear" else DEV_ADDR)
        unlock = 0x5A if variant == "unlock5a" else 0x55
        last = None
        if variant == "short-bank":
            last = max(2, row[4] - 1)
        self.bank = MI.make_bank(bname, "rnd1", last, (), unlock=unlock, lock_byte=lock_byte)
        if variant == "nobble":
            self.bank.nobble_dtr0 = True
        if variant == "readonly":
            self.bank.refuse = {row[4]}
        by = MI.make_bank(bname, "zero", lock_byte=0x55)
        if fam == "gear":
            self.unit = G.Gear(short=self.sa, banks={self.bank.number: self.bank})
            self.byunit = G.Gear(short=(self.sa + 1) % 64, banks={by.number: by})
            self.bus = G.Bus([self.unit, self.byunit])
        else:
            self.unit = D.Device(short=self.sa, banks={self.bank.number: self.bank})
            self.byunit = D.Device(short=(self.sa + 1) % 64, banks={by.number: by})
            self.bus = D.Bus24([self.unit, self.byunit])
        self.by = by
        self.initial = list(self.bank.cells)
        self.by_initial = list(by.cells)
        self.injected = []
        self.step = 0

    def addr(self):
        return MI.make_addr(self.fam, self.sa, getattr(self, "aform", None))

    def execute(self, cmd):
        from dali import frame as F
        fr = self.bus.execute(cmd)
        name = type(cmd).__name__
        if cmd.response is not None and self.chooser is not None and name in ("WriteMemoryLocation", "QueryContentDTR0"):
            nalt = 5 if name == "WriteMemoryLocation" else 4
            k = self.chooser.choose(nalt, f"fault@{self.step}:{name}", costs=[0] + [1] * (nalt - 1))
            if k == 4:
                # unit-side fault: the write was executed but DTR0 was not advanced this once
                if self.unit.dtr0 > 0:
                    self.unit.dtr0 -= 1
                self.injected.append((self.step, name, "dtr0-not-advanced"))
            if k == 1:
                fr = None
                self.injected.append((self.step, name, "silence"))
            elif k == 2:
                fr = F.BackwardFrame(((fr.as_integer if fr is not None else 0) + 1) & 0xFF)
                self.injected.append((self.step, name, "plus1"))
            elif k == 3:
                fr = F.BackwardFrameError(fr.as_integer if fr is not None else 0)
                self.injected.append((self.step, name, "err"))
            self.step += 1
        return fr


def run_write(cfg, ch):
    vals = lib_values()
    row = M.by_name()[(cfg["bank"], cfg["name"])]
    cls = vals[(cfg["bank"], cfg["name"])]
    h = WHarness(cfg["fam"], cfg["bank"], cfg["lock"], cfg["variant"], row, ch, sa=cfg.get("sa"))
    h.aform = cfg.get("aform")
    raw = bytes.fromhex(cfg["raw"])
    kw = dict(cfg.get("opts", {}))
    try:
        if cfg.get("via") == "write":
            seq = cls.write(h.addr(), cfg["value"], **kw)
        elif cfg.get("via") == "latch":
            import importlib
            bank = getattr(importlib.import_module("dali.memory." + M.BANKS[cfg["bank"]][0]), cfg["bank"])
            seq = getattr(bank, cfg["value"])(h.addr())
        else:
            seq = cls.write_raw(h.addr(), raw, **kw)
        kind, val, n = G.run_sequence(seq, h, 400)
    except Exception as e:          # raised while creating the generator
        kind, val, n = "raise", e, 0
    return h, row, kind, val, n


def judge(res, cfg, h, row, kind, val, n):
    name = row[1]
    case = dict(cfg, t="write", injected=[list(i) for i in h.injected])
    raw = bytes.fromhex(cfg["raw"])
    opts = cfg.get("opts", {})
    ignore = opts.get("ignore_feedback", False) or cfg.get("via") == "latch"
    wlocs = list(range(row[3], row[3] + len(raw)))
    lockable = M.lockable(row) or opts.get("force_unlock", False)
    bank = h.bank
    tag = f"{name}:{cfg['variant']}"
    if h.by.cells != h.by_initial and not (set(i for i in range(256) if h.by.cells[i] != h.by_initial[i]) <= set()):
        add_violation(res, f"C10:bystander-written:{name}", f"{cfg}: a unit that was not addressed had its memory changed", case)
    if not M.writable(row):
        okexc = kind == "raise" and type(val).__name__ in ("MemoryValueNotWriteable", "ValueError")
        if not okexc or n != 0:
            add_violation(res, f"C10:readonly-value-not-refused:{name}", f"{cfg}: {kind} {val!r} after {n} commands", case)
        if bank.cells != h.initial:
            add_violation(res, f"C10:readonly-value-written:{name}", f"{cfg}: memory changed", case)
        return "refused"
    expect_len_error = (len(raw) > M.width(row)) or (len(raw) != M.width(row) and not opts.get("allow_short_write", False))
    if expect_len_error:
        if kind != "raise" or not isinstance(val, ValueError) or n != 0:
            add_violation(res, f"C10:length-not-refused:{name}", f"{cfg}: {kind} {val!r} after {n} commands", case)
        return "length"
    nonconforming = cfg["variant"] != "standard"
    # does the variant actually bite for this value?
    bites = False
    if cfg["variant"] == "unlock5a":
        bites = M.lockable(row) and len(raw) > 0
    elif cfg["variant"] == "short-bank":
        bites = any(l > bank.last for l in wlocs)
    elif cfg["variant"] == "nobble":
        bites = len(raw) > 0 or True
    elif cfg["variant"] == "readonly":
        bites = row[4] in wlocs
    faulted = bool(h.injected)
    if faulted:
        observe(res, "writes_with_injected_fault")
    if nonconforming and bites:
        observe(res, "writes_to_nonconforming_unit")
    if kind == "return":
        observe(res, "writes_returning_normally")
    if kind == "raise":
        if type(val).__name__ not in DOC_EXC:
            add_violation(res, f"C10:undocumented-exception:{type(val).__name__}", f"{cfg} faults {h.injected}: raised {val!r}", case)
            return "exc"
        if len(raw) == 0:
            observe(res, "zero_length_write_raises")       # nothing to store: neither clause of the statement applies
        elif not faulted and not (nonconforming and bites) and not ignore:
            add_violation(res, f"C10:spurious-failure:{tag}", f"{cfg}: conforming unit, no fault, but raised {val!r}", case)
        return "failed:" + type(val).__name__
    if kind != "return":
        add_violation(res, f"C10:no-termination:{tag}", f"{cfg}: {kind}", case)
        return "cap"
    # ---- normal return ------------------------------------------------------------
    if ignore:
        return "ignored-feedback"
    if faulted or (nonconforming and bites):
        add_violation(res, f"C10:failure-reported-as-success:{tag}",
                      f"{cfg} faults {h.injected}: write returned normally; stored {[bank.cells[l] for l in wlocs]} wanted {list(raw)}", case)
        return "silent-failure"
    for i, l in enumerate(wlocs):
        if bank.cells[l] != raw[i]:
            add_violation(res, f"C10:data-not-stored:{tag}", f"{cfg}: location {l:#x} holds {bank.cells[l]} wanted {raw[i]}", case)
            break
    for l in range(256):
        if l in wlocs or l == 2:
            continue
        if bank.cells[l] != h.initial[l]:
            add_violation(res, f"C10:other-location-changed:{tag}", f"{cfg}: location {l:#x} {h.initial[l]} -> {bank.cells[l]}", case)
            break
    if 2 not in wlocs and (bank.has_lock or bank.has_latch):
        if lockable:
            if bank.cells[2] == bank.unlock_value or bank.cells[2] == 0x55:
                add_violation(res, f"C10:left-unlocked:{tag}", f"{cfg}: lock byte {bank.cells[2]:#x} after the write", case)
        elif bank.cells[2] != h.initial[2]:
            add_violation(res, f"C10:lock-byte-changed:{tag}", f"{cfg}: lock byte {h.initial[2]:#x} -> {bank.cells[2]:#x} by a write that needs no unlocking", case)
    return "stored"


def shards(tier):
    out = []
    for r in M.VALUES:
        out.append(("value", r[0], r[1], tier))
    out.append(("latch", tier))
    out.append(("vendor",))
    for a0 in range(0, 64, 16):
        out.append(("addr_sweep", a0, a0 + 16))
    out += P.partner_shards(PARTNERS)
    return out


def _partner_write(key, fam, raw, lock):
    def make():
        from dali.address import GearShort, DeviceShort
        cls = lib_values()[key]
        bank = MI.make_bank(key[0], "a5", lock_byte=lock)
        if fam == "gear":
            bus, addr = G.Bus([G.Gear(short=9, banks={bank.number: bank})]), GearShort(9)
        else:
            bus, addr = D.Bus24([D.Device(short=9, banks={bank.number: bank})]), DeviceShort(9)
        return cls.write_raw(addr, raw), bus, lambda: list(bank.cells)
    return make


PARTNERS = [("LuminaireID.write_raw (gear, locked bank)", _partner_write(("BANK_1", "LuminaireID"), "gear", bytes(range(0x31, 0x39)), 0xFF)),
            ("ManufacturerGTIN.write_raw (device, unlocked bank)", _partner_write(("BANK_1", "ManufacturerGTIN"), "device", bytes(range(1, 7)), 0x55))]
PARTNERED = [("vendor",), ("latch", "quick"), ("value", "BANK_1", "ContentFormatID", "quick"), ("value", "BANK_1", "LuminaireID", "quick")]


def run_shard(shard):
    if shard[0] == "partnered":
        import sys
        return P.run_partnered(sys.modules[__name__], shard, PARTNERS, PARTNERED)
    res = new_result()
    if shard[0] == "vendor":
        # values an application declares itself (the documented extension point): their locations are a sequence "in the
        # order required by the value" - descending (little-endian number), with a gap, or contiguous.  The write must store
        # byte i at location i of the declaration and nowhere else.  (declared inside this shard's own process only)
        from dali.memory.location import MemoryBank, MemoryLocation, MemoryType, NumericValue
        from dali.address import GearShort, DeviceShort
        VB = MemoryBank(9, 0x20, has_lock=True)

        def declare(name, addrs, type_):
            return type(name, (NumericValue,), {"bank": VB, "locations": tuple(MemoryLocation(a, type_=type_) for a in addrs)})
        decls = [("Contiguous", (0x04, 0x05), MemoryType.NVM_RW), ("LittleEndian", (0x07, 0x06), MemoryType.NVM_RW),
                 ("Gap", (0x09, 0x0B), MemoryType.NVM_RW), ("Reversed3Lockable", (0x12, 0x11, 0x10), MemoryType.NVM_RW_L),
                 ("Scattered", (0x18, 0x14, 0x16), MemoryType.RAM_RW), ("StartsAtThree", (0x03,), MemoryType.NVM_RW),
                 ("VendorProtectable", (0x1A, 0x1B), MemoryType.NVM_RW_P)]      # protectable by a vendor-specific mechanism: writable, NOT lockable
        classes = [(n, a, declare("V" + n, a, t), t) for n, a, t in decls]
        for name, addrs, cls, t in classes:
            for fam in ("gear", "device"):
                for opts in ({}, {"ignore_feedback": True}, {"force_unlock": True}):
                    for lock0 in (0xFF, 0x55):
                        cells = [0x20, 0x00, lock0] + [(0x80 + 3 * i) & 0xFF for i in range(3, 0x21)]
                        bank = G.MemBank(9, cells, writable=set(range(3, 0x21)), lockable={0x10, 0x11, 0x12}, has_lock=True)
                        before = list(bank.cells)
                        if fam == "gear":
                            bus = G.Bus([G.Gear(short=3, banks={9: bank})])
                            addr = GearShort(3)
                        else:
                            bus = D.Bus24([D.Device(short=5, banks={9: bank})])
                            addr = DeviceShort(5)
                        raw = bytes((0x11 * (i + 1)) & 0xFF for i in range(len(addrs)))
                        kind, val, n = G.run_sequence(cls.write_raw(addr, raw, **opts), bus, 200)
                        case = {"t": "vendor", "name": name, "fam": fam, "opts": opts, "lock": lock0}
                        res["evaluations"] += 1
                        res["transitions"] += n
                        if kind != "return":
                            add_violation(res, f"C10:vendor:raised:{name}", f"user-declared value {name} at {[hex(a) for a in addrs]} ({fam}, {opts}): {kind} {val!r}", case)
                            continue
                        want = list(before)
                        for a, b in zip(addrs, raw):
                            want[a] = b
                        diff = [(hex(i), bank.cells[i], want[i]) for i in range(3, 0x21) if bank.cells[i] != want[i]]
                        if diff:
                            add_violation(res, f"C10:vendor:stored-elsewhere:{name}", f"user-declared value {name} with locations {[hex(a) for a in addrs]} ({fam}, {opts}): "
                                          f"write returned normally, but (location, holds, should hold) = {diff}", case)
                        lockable = t == MemoryType.NVM_RW_L or opts.get("force_unlock")
                        if lockable and bank.cells[2] == 0x55:
                            add_violation(res, f"C10:vendor:left-unlocked:{name}", f"{name} ({fam}, {opts}): lock byte still 0x55", case)
                        if not lockable and bank.cells[2] != lock0:
                            add_violation(res, f"C10:vendor:lock-byte-changed:{name}", f"{name} ({fam}, {opts}): lock byte {lock0:#x} -> {bank.cells[2]:#x}", case)
                        res["distinct"].add(("vendor", name, kind))
        # vendor values DERIVED from value classes that have been written above, re-declaring bank / locations with another
        # memory type: writability and the lock protocol follow the value's OWN locations, whatever its parent's were
        from dali.exceptions import MemoryValueNotWriteable as _NW
        bycls = {n: c for n, a, c, t in classes}
        VB2 = MemoryBank(10, 0x20, has_lock=True)
        derived = [("PlainFromLockable", "Reversed3Lockable", (0x04, 0x05), MemoryType.NVM_RW), ("ReadOnlyFromWritable", "Contiguous", (0x06, 0x07), MemoryType.NVM_RO),
                   ("RomFromRam", "Scattered", (0x08,), MemoryType.ROM), ("LockableFromPlain", "LittleEndian", (0x10, 0x11), MemoryType.NVM_RW_L)]
        for name, parent, addrs, t in derived:
            cls = type("D" + name, (bycls[parent],), {"bank": VB2, "locations": tuple(MemoryLocation(a, type_=t) for a in addrs)})
            for fam in ("gear", "device"):
                for lock0 in (0xFF, 0xAA):
                    cells = [0x20, 0x00, lock0] + [(0x40 + 5 * i) & 0xFF for i in range(3, 0x21)]
                    bank = G.MemBank(10, cells, writable=set(range(3, 0x21)), lockable={0x10, 0x11}, has_lock=True)
                    before = list(bank.cells)
                    if fam == "gear":
                        bus = G.Bus([G.Gear(short=3, banks={10: bank})])
                        addr = GearShort(3)
                    else:
                        bus = D.Bus24([D.Device(short=5, banks={10: bank})])
                        addr = DeviceShort(5)
                    raw = bytes((0x21 * (i + 1)) & 0xFF for i in range(len(addrs)))
                    kind, val, n = G.run_sequence(cls.write_raw(addr, raw), bus, 200)
                    case = {"t": "vendor", "name": name, "fam": fam, "opts": {}, "lock": lock0}
                    res["evaluations"] += 1
                    res["transitions"] += n
                    if t in (MemoryType.NVM_RO, MemoryType.ROM):
                        if kind != "raise" or not isinstance(val, _NW) or n != 0 or bank.cells != before:
                            add_violation(res, f"C10:vendor:derived-read-only-not-refused:{name}", f"value {name} ({t.name} locations {[hex(a) for a in addrs]}) derived from the written "
                                          f"value {parent} ({fam}): {kind} {val!r} after {n} commands; memory changed: {bank.cells != before}", case)
                        continue
                    want = list(before)
                    for a, b in zip(addrs, raw):
                        want[a] = b
                    if kind != "return" or bank.cells[3:] != want[3:]:
                        add_violation(res, f"C10:vendor:derived-write:{name}", f"value {name} derived from {parent} ({fam}): {kind} {val!r}; differing locations "
                                      f"{[hex(i) for i in range(3, 0x21) if bank.cells[i] != want[i]]}", case)
                    if t == MemoryType.NVM_RW_L and bank.cells[2] == 0x55:
                        add_violation(res, f"C10:vendor:left-unlocked:{name}", f"{name} ({fam}): lock byte still 0x55", case)
                    if t != MemoryType.NVM_RW_L and bank.cells[2] != lock0:
                        add_violation(res, f"C10:vendor:lock-byte-changed:{name}", f"{name} ({t.name} locations, derived from the lockable {parent}; {fam}): lock byte "
                                      f"{lock0:#x} -> {bank.cells[2]:#x}", case)
                    res["distinct"].add(("vendor-derived", name, kind))
        sample(res, {"user_declared_values": [n for n, a, c, t in classes], "derived_from_written_values": [d[0] for d in derived]})
        return res
    if shard[0] == "addr_sweep":
        # the same writes addressed to EVERY short address (gear and device), one fault at every answering step
        byname = M.by_name()
        targets = [k for k in byname if M.writable(byname[k])]
        pick = [targets[0], targets[len(targets) // 2], targets[-1]]
        for sa in range(shard[1], shard[2]):
            for fam, aform in (("gear", None), ("device", None), ("gear", "int"), ("gear", "subclass"), ("device", "subclass")):
                if aform is not None and sa % 16 not in (0, 5, 15):
                    continue                  # other spellings of the address: plain int (gear), instance of an application subclass
                for key in pick:
                    row = byname[key]
                    w = M.width(row)
                    raw = bytes((0x21 + 5 * i) & 0x7F for i in range(w))
                    for lock in (0xFF, 0x55):
                        cfg = dict(bank=key[0], name=key[1], raw=raw.hex(), fam=fam, lock=lock, variant="standard", opts={}, sa=sa, aform=aform)
                        for ch, obs in explore(lambda c: run_write(cfg, c), bound=1 if lock == 0xFF else 0):
                            h, row_, kind, val, n = obs
                            r = judge(res, cfg, h, row, kind, val, n)
                            res["evaluations"] += 1
                            res["transitions"] += n
                            res["distinct"].add(("addr_sweep", key[1], r))
        sample(res, {"address_sweep": [shard[1], shard[2] - 1], "values": [k[1] for k in pick]})
        return res
    if shard[0] == "latch":
        for bname, b in M.BANKS.items():
            for fam in ("gear", "device"):
                for op, want in (("latch", 0xAA), ("unlatch", 0xFF)):
                    for lock in (0xFF, 0xAA, 0x55):
                        cfg = dict(bank=bname, name="LastAddress", raw="", fam=fam, lock=lock, variant="standard", via="latch", value=op)
                        h, row, kind, val, n = run_write(cfg, None)
                        res["evaluations"] += 1
                        res["transitions"] += n
                        case = dict(cfg, t="latch")
                        if not b[4]:
                            if kind != "raise" or type(val).__name__ != "LatchingNotSupported" or n:
                                add_violation(res, f"C10:latch-unsupported:{bname}", f"{cfg}: {kind} {val!r}", case)
                        else:
                            if kind != "return" or h.bank.cells[2] != want or [c for i, c in enumerate(h.bank.cells) if i != 2] != [c for i, c in enumerate(h.initial) if i != 2]:
                                add_violation(res, f"C10:{op}:{bname}", f"{cfg}: {kind} {val!r}, lock byte {h.bank.cells[2]:#x}", case)
                        res["distinct"].add((bname, op, kind))
        sample(res, {"latch/unlatch": list(M.BANKS)})
        return res
    _, bname, name, tier = shard
    row = M.by_name()[(bname, name)]
    w = M.width(row)
    if not M.writable(row):
        for fam in ("gear", "device"):
            for raw in (bytes(w), bytes([0xFF] * w), bytes(max(0, w - 1)), b""):
                for opts in ({}, {"allow_short_write": True}, {"force_unlock": True}, {"ignore_feedback": True}):
                    cfg = dict(bank=bname, name=name, raw=raw.hex(), fam=fam, lock=0x55, variant="standard", opts=opts)
                    h, row_, kind, val, n = run_write(cfg, None)
                    r = judge(res, cfg, h, row, kind, val, n)
                    res["evaluations"] += 1
                    res["distinct"].add((name, r))
        sample(res, {"non_writable": name})
        return res
    bound = 1       # exactly one fault per run (statement): two faults can cancel each other (DTR0 one short + answer one high)
    pats = patterns(w, tier)
    for fam in ("gear", "device"):
        for lock in (0xFF, 0x55, 0x00, 0xAA):
            for pname, raw in pats.items():
                for variant in ("standard", "unlock5a", "short-bank", "nobble", "readonly"):
                    if variant != "standard" and (pname not in ("index",) or lock not in (0xFF, 0x55)):
                        continue
                    cfg = dict(bank=bname, name=name, raw=raw.hex(), fam=fam, lock=lock, variant=variant, opts={})
                    # faults are injected into conforming units only: a fault on top of a non-conforming
                    # unit can cancel it (DTR0 not advancing + answer+1) and proves nothing about the library
                    b = 0 if variant != "standard" else (bound if (pname in ("index", "ff") or tier == "thorough") else (1 if pname == "55" else 0))
                    for ch, obs in explore(lambda c: run_write(cfg, c), bound=b):
                        h, row_, kind, val, n = obs
                        r = judge(res, cfg, h, row, kind, val, n)
                        res["evaluations"] += 1
                        res["states"] += 1
                        res["traces"] += 1
                        res["transitions"] += n
                        res["distinct"].add((name, variant, r))
        # option variants (no faults, plus one fault for force_unlock)
        lens = sorted({0, 1, max(0, w - 1), w, w + 1}) if tier == "quick" else list(range(0, w + 2))
        for L in lens:
            raw = bytes((0x30 + i) & 0x7F for i in range(L))
            for opts in ({}, {"allow_short_write": True}):
                cfg = dict(bank=bname, name=name, raw=raw.hex(), fam=fam, lock=0xFF, variant="standard", opts=opts)
                h, row_, kind, val, n = run_write(cfg, None)
                r = judge(res, cfg, h, row, kind, val, n)
                res["evaluations"] += 1
                res["distinct"].add((name, "len", L, r))
        for opts in ({"force_unlock": True}, {"ignore_feedback": True}, {"force_unlock": True, "ignore_feedback": True}):
            if name == "LockByte" and "force_unlock" in opts:
                continue        # unlocking around a write of the lock byte itself is meaningless
            for lock in (0xFF, 0x55):
                cfg = dict(bank=bname, name=name, raw=pats["index"].hex(), fam=fam, lock=lock, variant="standard", opts=opts)
                for ch, obs in explore(lambda c: run_write(cfg, c), bound=1):
                    h, row_, kind, val, n = obs
                    r = judge(res, cfg, h, row, kind, val, n)
                    res["evaluations"] += 1
                    res["transitions"] += n
                    res["distinct"].add((name, "opts", tuple(sorted(opts)), r))
        # MASK / TMASK literals and strings through write()
        vals = []
        if row[2] in ("numeric", "cct", "fixedscale", "temperature"):
            if row[6]:
                vals.append(("MASK", bytes([0xFF] * w)))
            if row[7]:
                vals.append(("TMASK", bytes([0xFF] * (w - 1) + [0xFE])))
            if row[2] in ("numeric", "cct"):
                vals.append((1, (1).to_bytes(w, "big")))
        if row[2] == "string":
            # every length 0..w: shorter strings are stored NUL-terminated, a full-length one without terminator
            for L in range(w + 1):
                st = "".join(chr(0x41 + (i % 26)) for i in range(L))
                vals.append((st, st.encode("ascii") + (b"\x00" if L < w else b"")))
        for v, raw in vals:
            cfg = dict(bank=bname, name=name, raw=raw.hex(), fam=fam, lock=0xFF, variant="standard", via="write", value=v,
                       opts={"allow_short_write": True} if row[2] == "string" else {})
            h, row_, kind, val, n = run_write(cfg, None)
            r = judge(res, cfg, h, row, kind, val, n)
            res["evaluations"] += 1
            res["distinct"].add((name, "write", str(v)[:5], r))
            if row[2] == "string" and kind == "return":
                # what a reader gets back afterwards must be the string that was written (reference decode of the stored cells)
                stored = bytes(h.bank.cells[l] if h.bank.cells[l] is not None else 0xFF for l in range(row[3], row[4] + 1))
                back = M.ref_decode(row, stored)
                if back != v:
                    add_violation(res, f"C10:string-reads-back-differently:{name}", f"{cfg}: wrote {v!r}, the stored bytes {stored!r} read back as {back!r}",
                                  dict(cfg, t="write", injected=[]))
    sample(res, {"writable": name, "bank": bname, "width": w, "fault_bound": bound})
    return res


def replay(case):
    res = new_result()
    if case["t"] == "latch":
        return run_shard(("latch", "quick"))["violations"]
    if case["t"] == "vendor":
        return run_shard(("vendor",))["violations"]
    cfg = {k: case[k] for k in ("bank", "name", "raw", "fam", "lock", "variant", "opts", "via", "value", "sa") if k in case}
    row = M.by_name()[(cfg["bank"], cfg["name"])]
    nf = len(case.get("injected", []))
    for ch, obs in explore(lambda c: run_write(cfg, c), bound=nf):
        h, row_, kind, val, n = obs
        judge(res, cfg, h, row, kind, val, n)
    return res["violations"]
