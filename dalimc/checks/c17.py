"""C17 - gateway loss or silence fails sends promptly and recovery is clean.

E3 fault enumeration: the real HID drivers on the virtual loop; the device is made to vanish
(reads/writes raise OSError, the fd is reported readable) at EVERY iteration boundary of every
explored schedule, optionally returns, with reconnect limits None/0/1/3 and exceptions on/off;
a caller is cancelled at every await point and 300 further sends make the sequence numbers
wrap; the serial gateways stop confirming / answering.
"""
import itertools

from dalimc.core.runner import new_result, add_violation, observe, sample
from dalimc.core.explorer import explore
from dalimc.aio.engine import execute, Caller

ID = "C17"
OPTIMISED_STRIDE = {"quick": 12, "thorough": 24}      # every k-th shard once more in an interpreter started with -O
TRACE_STRIDE = {"quick": 8, "thorough": 16}      # every k-th shard once more with logging enabled down to TRACE
LEVEL = "fault_enumeration"
ENGINE = "E3"
TECHNIQUE = "exhaustive fault placement: device loss / caller cancellation / gateway silence injected at every scheduler boundary of every schedule within the deviation bound, on the real asyncio drivers over a virtual loop"
RULE = ("HID drivers x 0-3 callers x exceptions on/off x reconnect limit {None,0,1,3} x {loss, loss+return}: the loss (1 deviation) "
        "is placed at every boundary, plus <= d further scheduling deviations; cancellation of one caller at every boundary followed by "
        "a linear tail of 300 sends (start sequence number 1 and 0xFE); serial drivers with a gateway that stops confirming / answering; "
        "distinct = distinct (scenario, outcome, status-callback sequence) observations")
ASSUMPTIONS = [
    "device loss = os.read/os.write raise OSError and the selector reports the fd readable; return = os.open succeeds again",
    "senders queued while the driver is disconnected are allowed to wait; 'nobody hangs' is judged for sends in flight and at quiescence after the device returned",
    "the reconnect poll is bounded by the scenario's timer budget when the limit is None",
    "an OSError escaping a reader callback into the loop's exception handler is not itself a violation in loss scenarios",
]
SANITY = ["runs_with_loss_tridonic", "runs_with_loss_hasseb", "runs_with_return_tridonic", "runs_with_return_hasseb",
          "runs_with_cancel_tridonic", "runs_with_cancel_hasseb", "tail_sends", "runs_reporting_failed",
          "sends_failed_with_CommunicationError", "serial_confirm_timeouts", "serial_silent_answers", "serial_gateway_died_mid_report"]
BOUNDS = {"quick": "loss + <=1 further deviation; cancel + 0 further deviations + 300-send tail; serial: silence at confirmation / answer d<=1, gateway dies after 1..4 (6) bytes of its n-th report (n<=3), default schedule", "thorough": "loss + <=2 further deviations (2 callers), double loss; cancel + <=1 further deviation"}


class SeqResult:
    """Result of the 'seq' caller: both query answers must be the caller's own."""

    def __init__(self, first, second):
        self.first, self.second = first, second


class PowerSupplyCall:
    """Stands for driver.power_supply(True) in a caller list: no frame, no answer expected."""
    response = None
    frame = None

    def __repr__(self):
        return "power_supply(True)"


def build_cmd(kind, k):
    from dali.gear import general as gg, led
    from dali.address import GearShort
    if kind == "pwr":
        return PowerSupplyCall()
    a = GearShort(k)
    return {"num": lambda: gg.QueryActualLevel(a), "seq": lambda: gg.QueryActualLevel(a), "off": lambda: gg.Off(a), "twice": lambda: gg.SetScene(a, k),
            "dt": lambda: led.QueryFastFadeTime(a)}[kind]()


def make_hid_world(driver, kinds, exc_on, limit, ret, nloss=1, tail=0, start_seq=1, cancel=False, cancel_who=0, eager=False, exc_via="attr",
                   use_glob=False, fail_write_at=None, fail_handshake=0):
    """exc_on: whether callers want CommunicationError (True) or a transparent retry (False).  exc_via: how they say so -
    "attr": the driver-wide exceptions_on_send attribute; "arg": the per-call exceptions= argument, with the attribute set
    the OTHER way round (the argument has to win)."""
    def make():
        from dalimc.aio.hidworld import HidWorld
        cmds = [build_cmd(kd, i + 1) for i, kd in enumerate(kinds)]
        table = {(16, c.frame.as_integer): ("value", 0x20 + i) for i, c in enumerate(cmds) if c.response is not None}

        dtframes = {(16, c.frame.as_integer): c.devicetype for c in cmds if getattr(c, "devicetype", 0)}

        def bus(bits, value, idx):
            if (bits, value) in dtframes:
                # control gear obeys an application-extended command only when the frame directly before it on the bus - since
                # the gateway was (re)opened - is the matching ENABLE DEVICE TYPE
                gw = w.gateway
                prev = gw.wire[idx - 1] if idx - 1 >= gw.epoch and idx >= 1 else None
                if prev is None or tuple(prev[:2]) != (16, 0xC100 | dtframes[(bits, value)]):
                    return ("none",)
            if (bits, value) in table:
                return table[(bits, value)]
            if bits == 16 and (value & 0x1FF) == 0x1A0:
                return ("value", (value >> 9) & 0x3F)          # tail queries: answer = own short address
            return ("none",)
        callers = []
        gens = {}
        for i, c in enumerate(cmds):
            if kinds[i] == "seq":
                # a three-command transaction through run_sequence (query, command, query)
                def gen(c=c):
                    a = yield c
                    yield build_cmd("off", 40)
                    b = yield c
                    return SeqResult(c.response(a.raw_value) if a is not None else None, b)

                async def co(w, i=i, gen=gen):
                    gens[i] = gen()
                    return await w.driver.run_sequence(gens[i])
            elif kinds[i] == "pwr":
                async def co(w):
                    if exc_via == "arg":
                        return await w.driver.power_supply(True, exceptions=exc_on)
                    return await w.driver.power_supply(True)
            elif exc_via == "arg":
                async def co(w, c=c):
                    return await w.driver.send(c, exceptions=exc_on)
            else:
                async def co(w, c=c):
                    return await w.driver.send(c)
            callers.append(Caller(f"c{i + 1}", co, cancellable=(cancel and i == cancel_who)))
        w = HidWorld(driver, bus, callers, start_seq=start_seq, reconnect_limit=limit,
                     exceptions_on_send=(exc_on if exc_via == "attr" else not exc_on), loss=nloss > 0, returns=ret)
        w.loss_budget = nloss
        w.fail_handshake_writes = fail_handshake    # ... or at a handshake write after it has returned (then it may return once more)
        w.fail_write_at = fail_write_at # the gateway disappears at exactly the n-th os.write made while the driver is connected
        w.use_glob = use_glob           # device named by a glob pattern; it comes back under the NEXT node name (USB re-enumeration)
        w.cmds = cmds
        w.gens = gens
        w.timer_budget = 9
        w.eager_start = eager           # all callers queued back to back: the cancellation can hit one that still waits for the lock
        w.tail_n = tail
        w.tail_results = []
        if tail:
            from dali.gear.general import QueryActualLevel
            from dali.address import GearShort

            async def tailco(w):
                w.in_tail = True
                for j in range(tail):
                    a = 10 + (j % 50)
                    try:
                        r = await w.driver.send(QueryActualLevel(GearShort(a)))
                        w.tail_results.append((a, None if r.raw_value is None else r.raw_value.as_integer))
                    except Exception as e:
                        w.tail_results.append((a, "EXC:" + type(e).__name__))
                        break
                return len(w.tail_results)
            w.in_tail = False
            tc = Caller("tail", tailco, start_enabled=lambda w: all(c.task is not None and c.task.done() for c in w.callers[:-1]))
            w.callers = callers + [tc]
            w.frozen = lambda: w.in_tail
        return w
    return make


def judge_hid(res, cfg, w, obs):
    case = dict(cfg, t="hid")
    drv = cfg["driver"]
    tag = f"{drv}"
    d = w.driver
    lost = any(x == "fault:loss" for x in w.trace)
    returned = any(x == "return" for x in w.trace)
    if lost:
        observe(res, f"runs_with_loss_{drv}")
    if returned:
        observe(res, f"runs_with_return_{drv}")
    if any(x.startswith("cancel:") for x in w.trace):
        observe(res, f"runs_with_cancel_{drv}")
    if w.tail_n:
        observe(res, "tail_sends", len(w.tail_results))
    if "failed" in [s for t, s in obs["status"]]:
        observe(res, "runs_reporting_failed")
    if any(o[0] == "raised" and o[1] == "CommunicationError" for o in obs["callers"]):
        observe(res, "sends_failed_with_CommunicationError")
    connected_end = obs["connected"]
    statuses = [s for t, s in obs["status"]]
    pending = []
    ncallers = len(w.cmds)
    for i, (cmd, oc) in enumerate(zip(w.cmds, obs["callers"][:ncallers])):
        who = f"caller {i + 1} ({cfg['kinds'][i]})"
        if oc[0] == "returned" and isinstance(oc[1], SeqResult):
            vals = [None if (x is None or x.raw_value is None) else x.raw_value.as_integer for x in (oc[1].first, oc[1].second)]
            if vals != [0x20 + i, 0x20 + i]:
                add_violation(res, f"C17:{tag}:wrong-answer", f"{cfg}: {who} sequence got {vals}, own answer is {0x20 + i}", case)
        elif oc[0] == "returned":
            r = oc[1]
            if cmd.response is None:
                if r is not None:
                    add_violation(res, f"C17:{tag}:wrong-result", f"{cfg}: {who} got {r!r}", case)
            else:
                raw = getattr(r, "raw_value", "?")
                val = None if raw is None else (raw.as_integer if raw != "?" else "?")
                if type(r) is not cmd.response or val != 0x20 + i:
                    key = "stale-answer-after-cancel" if (cfg.get("cancel") and val is not None and val != 0x20 + i) else "wrong-answer"
                    add_violation(res, f"C17:{tag}:{key}", f"{cfg}: {who} got {type(r).__name__}({val}), own answer is {0x20 + i} (events {w.trace[-8:]})", case)
        elif oc[0] == "raised":
            if oc[1] != "CommunicationError":
                add_violation(res, f"C17:{tag}:raised:{oc[1]}", f"{cfg}: {who} raised {oc[1:]} instead of CommunicationError", case)
            elif not cfg["exc_on"] and cfg["kinds"][i] != "seq":       # (run_sequence never retries: it may always raise)
                add_violation(res, f"C17:{tag}:exception-despite-exceptions-off", f"{cfg}: {who} raised CommunicationError", case)
            elif not lost:
                add_violation(res, f"C17:{tag}:spurious-communication-error", f"{cfg}: {who} raised without any loss", case)
        elif oc[0] in ("pending", "not-started"):
            pending.append(i)
            if connected_end and oc[0] == "pending":
                add_violation(res, f"C17:{tag}:caller-hangs", f"{cfg}: {who} still pending although the driver is connected at quiescence (events {w.trace[-10:]})", case)
        elif oc[0] == "cancelled" and not (cfg.get("cancel") and i == cfg.get("cancel_who", 0)):
            add_violation(res, f"C17:{tag}:caller-cancelled", f"{cfg}: {who} cancelled by nobody", case)
    import inspect
    for gi, g in w.gens.items():
        if obs["callers"][gi][0] in ("raised", "cancelled", "returned") and inspect.getgeneratorstate(g) == inspect.GEN_SUSPENDED:
            add_violation(res, f"C17:{tag}:sequence-not-closed", f"{cfg}: the sequence of caller {gi + 1} was left suspended after {obs['callers'][gi][:2]}", case)
    if not pending:
        if obs["lock"]:
            add_violation(res, f"C17:{tag}:lock-held", f"{cfg}: transaction lock held at quiescence", case)
        if drv == "tridonic":
            if obs["outstanding"]:
                add_violation(res, f"C17:{tag}:in-flight-slot-leaked", f"{cfg}: sequence numbers {obs['outstanding']} still registered as outstanding with no send in progress", case)
            if obs["semaphore"] != 2:
                add_violation(res, f"C17:{tag}:semaphore-leaked", f"{cfg}: command semaphore value {obs['semaphore']}", case)
        elif obs.get("command_lock"):
            add_violation(res, f"C17:{tag}:command-lock-held", f"{cfg}: hasseb command lock held", case)
    # ---- status callback sequence ----------------------------------------------------
    if statuses[:1] != ["connected"]:
        add_violation(res, f"C17:{tag}:status-first", f"{cfg}: status callbacks {statuses}", case)
    if lost:
        exp_prefix = ["connected", "disconnected"]
        if statuses[:2] != exp_prefix:
            add_violation(res, f"C17:{tag}:status-disconnected-missing", f"{cfg}: status callbacks {statuses}", case)
        limit = cfg["limit"]
        # one episode per 'disconnected': reconnect attempts (os.open calls) until the next 'connected'
        st = obs["status"]
        dtimes = [t for t, x in st if x == "disconnected"]
        for k, td in enumerate(dtimes):
            tend = min([t for t, x in st if x == "connected" and t > td] + [float("inf")])
            tnext = dtimes[k + 1] if k + 1 < len(dtimes) else float("inf")
            tend = min(tend, tnext)
            # (a driver given a glob pattern looks the pattern up at every attempt and opens only what it found)
            opens = [t for t, p in (w.glob_calls if cfg.get("use_glob") else w.open_calls) if td < t <= tend + 1e-6]
            failed_here = any(x == "failed" and td <= t <= tend + 1e-6 for t, x in st)
            for kth, t in enumerate(opens, start=1):
                if abs(t - (td + kth * 1.0)) > 1e-3:
                    add_violation(res, f"C17:{tag}:reconnect-interval", f"{cfg}: reconnect attempt {kth} at t={t}, disconnected at {td}", case)
            if limit is not None:
                if len(opens) > limit:
                    add_violation(res, f"C17:{tag}:reconnect-limit-exceeded", f"{cfg}: {len(opens)} attempts after the loss at t={td}, limit {limit}", case)
                if failed_here and len(opens) < limit:
                    add_violation(res, f"C17:{tag}:failed-too-early", f"{cfg}: 'failed' after {len(opens)} attempts in the episode starting at t={td}, limit {limit}; status {statuses}", case)
                last = k == len(dtimes) - 1
                if last and not connected_end and len(opens) == limit and w.status == "quiescent" and d._reconnect_task is None \
                        and not failed_here:
                    add_violation(res, f"C17:{tag}:failed-not-reported", f"{cfg}: reconnect limit {limit} reached after {len(opens)} attempts but status callbacks were {statuses}", case)
        # "when the device returns, the handshake is repeated": the first reconnect attempt made after the device is back succeeds
        attempts = w.glob_calls if cfg.get("use_glob") else w.open_calls
        for tr in getattr(w, "return_times", []):
            later = [t for t, p in attempts if t > tr + 1e-6]
            lost_again = [t for t, x in obs["status"] if x == "disconnected" and t > tr + 1e-6] + [t for t in getattr(w, "loss_times", []) if t > tr - 1e-6 and t >= tr]
            lost_again = [t for t in lost_again if t > tr or getattr(w, "loss_times", []).count(t) and w.loss_times.index(t) > 0]
            if later and not [t for t, x in obs["status"] if x == "connected" and t >= later[0] - 1e-6] and not lost_again:
                add_violation(res, f"C17:{tag}:not-reconnected-after-return", f"{cfg}: the gateway was back at t={tr} (node {w.node()}); reconnect attempts at "
                              f"{later[:4]} (looked for {[p for t, p in attempts if t > tr][:2]}) never connected; status callbacks {statuses}", case)
        # a driver that is neither connected nor trying to reconnect must have said 'failed'
        if w.status == "quiescent" and not connected_end and statuses[-1:] != ["failed"] and not obs.get("reconnect_pending", True):
            add_violation(res, f"C17:{tag}:reconnect-abandoned", f"{cfg}: the driver is not connected, no reconnect attempt is scheduled and 'failed' was not reported "
                          f"(reconnect task ended with {obs.get('reconnect_exception')}; loop exceptions {obs.get('loop_exceptions')}); status callbacks {statuses}, "
                          f"device present: {w.device_present}; events {w.trace[-8:]}", case)
        if returned and connected_end:
            if statuses[-1] != "connected":
                add_violation(res, f"C17:{tag}:status-reconnected-missing", f"{cfg}: status callbacks {statuses}", case)
            if drv == "tridonic" and w.gateway.inits[-2:] != [0x00, 0x02]:
                add_violation(res, f"C17:{tag}:handshake-not-repeated", f"{cfg}: init commands seen {w.gateway.inits}", case)
    elif "disconnected" in statuses or "failed" in statuses:
        add_violation(res, f"C17:{tag}:spurious-status", f"{cfg}: no loss but status callbacks {statuses}", case)
    # ---- tail ---------------------------------------------------------------------------
    if w.tail_n:
        toc = obs["callers"][-1]
        bad = [(a, v) for a, v in w.tail_results if v != a]
        if toc[0] != "returned" or toc[1] != w.tail_n or bad:
            first = bad[0] if bad else None
            key = "tail-failed"
            if first and isinstance(first[1], str) and "AssertionError" in first[1]:
                key = "sequence-number-reused-while-outstanding"
            elif first and isinstance(first[1], int):
                key = "stale-answer-after-cancel"
            add_violation(res, f"C17:{tag}:{key}", f"{cfg}: after the cancellation, send #{len(w.tail_results)} of the following {w.tail_n}: {first}; tail outcome {toc[:2]}", case)
    return (tuple(o[0] if o[0] != "raised" else o[1] for o in obs["callers"]), tuple(statuses), connected_end)


# ----------------------------------------------------------------------------- serial silence

def make_serial_world(driver, kind, silent):
    def make():
        from dalimc.aio.serialworld import SerialWorld
        cmd = build_cmd(kind, 1)
        nxt = build_cmd("num", 2)

        def bus(bits, value, idx):
            return ("value", 0x33) if (value & 0x1FF) == 0x1A0 else ("none",)
        times = {}

        async def co(w):
            times["start"] = w.loop.time()
            w.gateway.silent_confirm = silent == "confirm"
            w.gateway.silent_answer = silent == "answer"
            if silent.startswith("mid:"):
                _, nrep, nbytes = silent.split(":")
                w.gateway.die_mid = [int(nrep), int(nbytes)]
            try:
                return await w.driver.send(cmd)
            finally:
                times["end"] = w.loop.time()
                if not getattr(w.gateway, "dead", False):
                    w.gateway.silent_confirm = w.gateway.silent_answer = False

        async def co2(w):
            times["start2"] = w.loop.time()
            try:
                return await w.driver.send(nxt)
            finally:
                times["end2"] = w.loop.time()
        w = SerialWorld(driver, bus, [Caller("c1", co), Caller("c2", co2)])
        w.times, w.cmds = times, [cmd, nxt]
        w.timer_budget = 8
        return w
    return make


def judge_serial(res, cfg, w, obs):
    case = dict(cfg, t="serial")
    drv, kind, silent = cfg["driver"], cfg["kind"], cfg["silent"]
    S = w.S
    cls = S.DriverLubaRs232 if drv == "luba" else S.DriverSCIRS232
    oc, oc2 = obs["callers"]
    dt = w.times.get("end", 1e9) - w.times.get("start", 0)
    cmd = w.cmds[0]
    if silent == "confirm" and oc[0] == "raised":
        observe(res, "serial_confirm_timeouts")
    if silent == "answer" and oc[0] == "returned":
        observe(res, "serial_silent_answers")
    if silent.startswith("mid:"):
        # the gateway died in the middle of a report: the send in flight fails or reports 'no answer' within the
        # documented time, and so does the NEXT send (the gateway stays dead); nobody hangs, no lock stays taken
        observe(res, "serial_gateway_died_mid_report")
        limit = cls.timeout_tx_confirm * (2 if kind == "dt" else 1) + cls.timeout_rx + 2e-3
        for who, o, t0, t1 in (("in flight", oc, "start", "end"), ("next", oc2, "start2", "end2")):
            if o[0] in ("pending", "not-started"):
                add_violation(res, f"C17:{drv}:hangs-after-gateway-died-mid-report", f"{cfg}: the send {who} is {o[0]} at quiescence", case)
            elif o[0] == "raised" and o[1] != "TimeoutError":
                add_violation(res, f"C17:{drv}:mid-report:raised:{o[1]}", f"{cfg}: the send {who} raised {o[1:]}", case)
            elif t1 in w.times and who == "next":
                # the next send may have queued for the transaction lock while the first one was still waiting
                began = max(w.times[t0], w.times.get("end", 0))
                if w.times[t1] - began > limit:
                    add_violation(res, f"C17:{drv}:mid-report:late", f"{cfg}: the send {who} took {w.times[t1] - began:.3f}s (documented {limit:.3f})", case)
        if oc2[0] == "returned" and w.cmds[1].response is not None and oc2[1] is not None and oc2[1].raw_value is not None:
            add_violation(res, f"C17:{drv}:mid-report:answer-from-a-dead-gateway", f"{cfg}: the next query returned {oc2[1].raw_value}", case)
        if obs["lock"] or obs["tx_lock"]:
            add_violation(res, f"C17:{drv}:lock-held-after-silence", f"{cfg}: transaction lock {obs['lock']}, tx lock {obs['tx_lock']}", case)
        return (oc[0], oc[1] if oc[0] == "raised" else "", oc2[0], oc2[1] if oc2[0] == "raised" else "")
    if silent == "confirm":
        if oc[0] != "raised" or oc[1] != "TimeoutError":
            add_violation(res, f"C17:{drv}:no-confirmation-not-reported", f"{cfg}: {oc}", case)
        elif dt > cls.timeout_tx_confirm + 1e-3:
            add_violation(res, f"C17:{drv}:confirmation-timeout-late", f"{cfg}: failed after {dt:.3f}s (documented {cls.timeout_tx_confirm})", case)
    else:
        if oc[0] != "returned":
            if not (oc[0] == "raised" and oc[1] == "TimeoutError" and any(x == "timer" for x in w.trace)):
                add_violation(res, f"C17:{drv}:silent-answer-raised", f"{cfg}: {oc}", case)
        else:
            r = oc[1]
            if cmd.response is None:
                if r is not None:
                    add_violation(res, f"C17:{drv}:silent-answer-wrong", f"{cfg}: non-query returned {r!r}", case)
            elif type(r) is not cmd.response or r.raw_value is not None:
                add_violation(res, f"C17:{drv}:silent-answer-wrong", f"{cfg}: returned {type(r).__name__} raw {getattr(r, 'raw_value', None)}", case)
    if obs["lock"] or obs["tx_lock"]:
        add_violation(res, f"C17:{drv}:lock-held-after-silence", f"{cfg}: transaction lock {obs['lock']}, tx lock {obs['tx_lock']}", case)
    if oc2[0] in ("pending",):
        add_violation(res, f"C17:{drv}:next-caller-hangs", f"{cfg}: the following send is {oc2}", case)
    elif oc2[0] == "returned" and silent == "answer":
        r = oc2[1]
        if r is None or r.raw_value is None or r.raw_value.as_integer != 0x33:
            if not any(x == "timer" for x in w.trace[:-2]):
                add_violation(res, f"C17:{drv}:next-caller-wrong", f"{cfg}: following query returned {getattr(r, 'raw_value', r)}", case)
    return (oc[0], oc[1] if oc[0] == "raised" else "", oc2[0], round(dt, 3))


# ----------------------------------------------------------------------------- shards

def shards(tier):
    out = []
    extra = 1 if tier == "quick" else 2
    for drv in ("tridonic", "hasseb"):
        for kinds in ((), ("num",), ("off",), ("twice",), ("dt",), ("seq",), ("num", "off"), ("num", "num"), ("dt", "num"), ("seq", "num"), ("num", "off", "num")):
            for exc_on in (True, False):
                if "seq" in kinds and not exc_on:
                    continue        # run_sequence never retries: only the exceptions-on contract applies to it
                for limit in (None, 0, 1, 3):
                    for ret in (False, True):
                        if len(kinds) == 3 and (limit in (0, 3) or not exc_on):
                            continue
                        b = 1 + (extra if len(kinds) <= 1 else (extra - 1 if len(kinds) == 2 else 0))
                        if tier == "thorough" and len(kinds) == 2:
                            b = 2 + (1 if kinds == ("num", "off") and limit in (None, 1) else 0)
                        out.append(("loss", drv, kinds, exc_on, limit, ret, 1, b))
        if tier == "thorough":
            for kinds in (("num",), ("num", "off")):
                for limit in (None, 1):
                    out.append(("loss", drv, kinds, True, limit, True, 2, 3))
        for limit in (1, 3):
            out.append(("loss", drv, ("num",), True, limit, True, 2, 2))       # loss, return, loss again
        # the legacy power_supply() entry point (Tridonic) under loss, both ways of asking for exceptions / retry
        if drv == "tridonic":
            for kinds in (("pwr",), ("num", "pwr"), ("pwr", "num")):
                for exc_on in (True, False):
                    for via in ("attr", "arg"):
                        out.append(("loss", drv, kinds, exc_on, None, True, 1, 2 if len(kinds) == 1 else 1, via))
                out.append(("loss", drv, kinds, False, 1, False, 1, 1, "attr"))
        # the caller's wish expressed through the per-call argument, against a driver-wide default set the other way
        for kinds in (("num",), ("off",), ("num", "off")):
            for exc_on in (True, False):
                for ret in (False, True):
                    out.append(("loss", drv, kinds, exc_on, None, ret, 1, 2 if len(kinds) == 1 else 1, "arg"))
        # sequences while the driver-wide default says "no exceptions": a sequence is never handed a made-up answer
        for kinds in (("seq",), ("seq", "num"), ("num", "seq")):
            for ret in (False, True):
                out.append(("loss", drv, kinds, False, None, ret, 1, 2 if len(kinds) == 1 else 1))
        # the gateway disappears AT a write (every write of the scenario in turn, the second write of a send-twice frame included)
        for kinds in (("twice",), ("num",), ("dt",), ("twice", "num")):
            for exc_on in (True, False):
                for nw in range(1, 6):
                    out.append(("loss", drv, kinds, exc_on, None, True, 0, 1 if tier == "quick" else 2, "attr", f"wfail:{nw}"))
        # the gateway returns and vanishes again during the handshake (its first / second handshake write), then returns for good
        for kinds, exc_on, limit in ((("num",), False, None), (("num",), True, None), (("num",), True, 3), ((), True, None)):
            for n in (1, 2):
                out.append(("loss", drv, kinds, exc_on, limit, True, 1, 1 if tier == "quick" else 2, "attr", f"hsfail:{n}"))
        # the device is named by a glob pattern and re-enumerates under another node name when it returns
        for kinds, exc_on, limit, nloss in ((("num",), True, None, 1), (("num",), False, None, 1), (("num", "off"), False, 3, 1), (("num",), True, 3, 2),
                                            (("seq",), True, None, 1)):
            out.append(("loss", drv, kinds, exc_on, limit, True, nloss, 2 if len(kinds) == 1 else 1, "attr", "glob"))
        for kinds in (("num",), ("twice",), ("dt",), ("num", "num")):
            for start_seq in (1, 0xFE):
                out.append(("cancel", drv, kinds, start_seq, 2 if (tier != "quick" or kinds == ("num", "num")) else 1))
        # a caller cancelled while it is still QUEUED for the lock behind one in flight (all callers started back to back)
        for kinds, who in ((("num", "num"), 1), (("num", "num", "num"), 1), (("dt", "num", "off"), 1), (("num", "off", "num"), 2)):
            out.append(("cancel", drv, kinds, 1, 1 if tier == "quick" else 2, who))
    for drv in ("luba", "sci"):
        for kind in ("num", "off", "twice", "dt"):
            for silent in ("confirm", "answer"):
                out.append(("serial", drv, kind, silent, 1 if tier == "quick" else 2))
        # the gateway dies in the MIDDLE of its n-th report (n = 0..3: confirmation, echo / transmit event, answer),
        # after 1..4 bytes (SCI reports are 5 bytes; LUBA: cuts after the sync, command, length byte and inside the payload)
        for kind in ("num", "off", "dt"):
            for nrep in range(4):
                for nbytes in (1, 2, 3, 4, 6):
                    if drv == "sci" and nbytes > 4:
                        continue
                    out.append(("serial", drv, kind, f"mid:{nrep}:{nbytes}", 0 if tier == "quick" else 1))
    return out


def run_shard(shard):
    res = new_result()
    k = shard[0]
    outs = set()
    if k == "loss":
        _, drv, kinds, exc_on, limit, ret, nloss, bound = shard[:8]
        via = shard[8] if len(shard) > 8 else "attr"
        use_glob = len(shard) > 9 and shard[9] == "glob"
        wfail = int(shard[9].split(":")[1]) if len(shard) > 9 and str(shard[9]).startswith("wfail:") else None
        hsfail = int(shard[9].split(":")[1]) if len(shard) > 9 and str(shard[9]).startswith("hsfail:") else 0
        cfg = dict(driver=drv, kinds=list(kinds), exc_on=exc_on, limit=limit, ret=ret, nloss=nloss, bound=bound, exc_via=via, use_glob=use_glob, wfail=wfail, hsfail=hsfail)
        mk = make_hid_world(drv, kinds, exc_on, limit, ret, nloss, exc_via=via, use_glob=use_glob, fail_write_at=wfail, fail_handshake=hsfail)
        for ch, (w, obs) in explore(lambda c: execute(mk, c), bound):
            outs.add(judge_hid(res, cfg, w, obs))
            res["evaluations"] += 1
            res["traces"] += 1
            res["transitions"] += len(w.trace)
    elif k == "cancel":
        _, drv, kinds, start_seq, bound = shard[:5]
        who = shard[5] if len(shard) > 5 else 0
        cfg = dict(driver=drv, kinds=list(kinds), exc_on=True, limit=None, ret=False, cancel=True, start_seq=start_seq, bound=bound,
                   cancel_who=who, eager=who > 0)
        mk = make_hid_world(drv, kinds, True, None, False, nloss=0, tail=300, start_seq=start_seq, cancel=True, cancel_who=who, eager=who > 0)
        for ch, (w, obs) in explore(lambda c: execute(mk, c), bound):
            outs.add(judge_hid(res, cfg, w, obs))
            res["evaluations"] += 1
            res["traces"] += 1
            res["transitions"] += len(w.trace)
    else:
        _, drv, kind, silent, bound = shard
        cfg = dict(driver=drv, kind=kind, silent=silent, bound=bound)
        mk = make_serial_world(drv, kind, silent)
        for ch, (w, obs) in explore(lambda c: execute(mk, c), bound):
            outs.add(judge_serial(res, cfg, w, obs))
            res["evaluations"] += 1
            res["traces"] += 1
            res["transitions"] += len(w.trace)
    res["states"] = len(outs)
    res["distinct"] = {(shard[:6], o) for o in outs}
    sample(res, {"scenario": [str(x) for x in shard], "executions": res["evaluations"], "distinct_observations": len(outs)})
    return res


def replay(case):
    res = new_result()
    t = case["t"]
    first = None
    if t == "hid":
        cfg = {k: v for k, v in case.items() if k != "t"}
        if cfg.get("cancel"):
            mk = make_hid_world(cfg["driver"], tuple(cfg["kinds"]), True, None, False, nloss=0, tail=300, start_seq=cfg["start_seq"], cancel=True,
                                cancel_who=cfg.get("cancel_who", 0), eager=cfg.get("eager", False))
        else:
            mk = make_hid_world(cfg["driver"], tuple(cfg["kinds"]), cfg["exc_on"], cfg["limit"], cfg["ret"], cfg.get("nloss", 1),
                                exc_via=cfg.get("exc_via", "attr"), use_glob=cfg.get("use_glob", False), fail_write_at=cfg.get("wfail"), fail_handshake=cfg.get("hsfail", 0))
        for ch, (w, obs) in explore(lambda c: execute(mk, c), cfg.get("bound", 2)):
            n0 = len(res["violations"])
            judge_hid(res, cfg, w, obs)
            if len(res["violations"]) > n0 and first is None:
                first = (ch.choices[:80], [x for x in w.trace][:80])
    else:
        cfg = {k: v for k, v in case.items() if k != "t"}
        mk = make_serial_world(cfg["driver"], cfg["kind"], cfg["silent"])
        for ch, (w, obs) in explore(lambda c: execute(mk, c), cfg.get("bound", 1)):
            n0 = len(res["violations"])
            judge_serial(res, cfg, w, obs)
            if len(res["violations"]) > n0 and first is None:
                first = (ch.choices, list(w.trace))
    if first:
        print("   first failing schedule:", first[0])
        print("   events:", first[1])
    return res["violations"]
