"""C05 - Frame is a fixed-width unsigned bit vector under all operations.

E1 explicit-state: the state of a Frame is (width, value).  From EVERY state of widths 1..W every operation of the alphabet is applied to the
real object and to a list-of-bits reference model; successors stay inside the state set
(width never changes, 0 <= value < 2^width is asserted after every transition), so by
closure every finite history over these widths is covered, not only depth-k ones.
"""
from dalimc.core.runner import new_result, add_violation, observe, sample

ID = "C05"
OPTIMISED_STRIDE = {"quick": 8, "thorough": 12}      # every k-th shard once more in an interpreter started with -O
TRACE_STRIDE = {"quick": 8, "thorough": 12}      # every k-th shard once more with logging enabled down to TRACE
BYTEORDER_STRIDE = {"quick": 12, "thorough": 24}      # every k-th shard once more with sys.byteorder reporting a big-endian host
LEVEL = "model_checking"
ENGINE = "E1"
TECHNIQUE = "explicit-state closure: every (width,value) state x every operation vs a list-of-bits reference model"
RULE = ("states = all (width, value) for widths 1..W plus boundary widths with structured values; "
        "transitions = every operation of the alphabet applied from every state (bit/slice read+write "
        "with every index in -1..w and every value -1..2^len, +, views, pack_len, ==, in, rebuild); cross-object histories: "
        "every ordered pair of widths explored inside one process; "
        "distinct = distinct (operation kind, outcome class) pairs observed")
ASSUMPTIONS = [
    "reference model: python list of bits, written from the docstrings of dali/frame.py",
    "the property's 'random histories up to width 256' is replaced by small-scope closure (widths<=8 quick / <=12 thorough complete) plus an exhaustive boundary grid for widths 16,24,25,63,64,255,256",
    "documented exceptions: IndexError out-of-range index, ValueError negative/oversized value, TypeError stepped slice / non-integer operand, OverflowError pack_len too short",
]
CHAIN_STRIDE = {'quick': 6, 'thorough': 12}      # every k-th shard is re-run in chains inside one process (non-initial process states)
BOUNDS = {"quick": "widths 1..8 complete + boundary widths + all ordered pairs of widths {1,2,3,5,7,8,9,16,24} in one process (3 states each)", "thorough": "widths 1..12 complete + boundary widths (larger grid)"}

BIG = [16, 24, 25, 63, 64, 255, 256]


# --------------------------------------------------------------------------- reference
class Ref:
    """list-of-bits model; bits[i] is bit i (bit 0 = least significant)."""

    def __init__(self, w, v):
        self.w = w
        self.bits = [(v >> i) & 1 for i in range(w)]

    def value(self):
        return sum(b << i for i, b in enumerate(self.bits))

    def bytes_be(self):
        n = (self.w + 7) // 8
        padded = self.bits + [0] * (n * 8 - self.w)
        out = []
        for k in range(n - 1, -1, -1):
            out.append(sum(padded[k * 8 + j] << j for j in range(8)))
        return out


def shards(tier):
    W = 8 if tier == "quick" else 12
    out = []
    for w in range(1, W + 1):
        n = 1 << w
        parts = 1 if w < 7 else min(64, 1 << (w - 5))
        step = n // parts
        for p in range(parts):
            out.append(("small", w, p * step, (p + 1) * step, W))
    for w in BIG:
        out.append(("big", w, tier))
    out.append(("ctor", W))
    # cross-object histories: the closure argument above assumes that a Frame's behaviour depends on its own
    # (width, value) only.  Every ordered pair of widths is therefore explored inside ONE process (three states
    # of the first width, then three of the second, all operations): anything remembered across objects shows.
    out.append(("subclasses",))
    CW = [1, 2, 3, 5, 7, 8, 9, 16, 24]
    for a in CW:
        out.append(("cross", a, tuple(b for b in CW if b != a)))
    return out


def _inv(fr, w, res, case, what):
    """Width unchanged and value in range, read through the public views only."""
    n = fr.as_integer
    ok = len(fr) == w and isinstance(n, int) and 0 <= n < (1 << w)
    if not ok:
        add_violation(res, "C05:invariant", f"after {what}: len {len(fr)} value {n!r}, width {w}", case)
    return ok


def _warm(fr):
    """Read every view once, so that anything an implementation may cache is populated
    before the mutation under test."""
    fr.as_integer, fr.pack, fr.as_byte_sequence, str(fr), len(fr)
    try:
        fr.pack_len(2)
    except OverflowError:
        pass
    return fr


def _views(fr, w, v, F):
    """All public views of the frame must show (w, v)."""
    nb = (w + 7) // 8
    exp = v.to_bytes(nb, "big")
    return (len(fr) == w and fr.as_integer == v and fr.pack == exp and fr.as_byte_sequence == list(exp)
            and fr == F(w, v) and not (fr != F(w, v)) and str(fr) == str(F(w, v)))


def _expect_exc(res, fn, exc, fr, w, v, key, case):
    """fn must raise exc and leave the frame unchanged."""
    try:
        r = fn()
    except exc:
        pass
    except Exception as e:
        add_violation(res, f"C05:{key}:wrong-exception", f"{case}: raised {e!r}, documented {exc}", case)
    else:
        add_violation(res, f"C05:{key}:accepted", f"{case}: returned {r!r}, expected {exc}", case)
    if fr.as_integer != v or len(fr) != w or fr.pack != v.to_bytes((w + 7) // 8, "big"):
        add_violation(res, f"C05:{key}:mutated-on-reject", f"{case}: frame changed to {fr.as_integer:#x}", case)
    res["transitions"] += 1
    res["distinct"].add((key, "rejected"))


def explore_state(F, w, v, res, idxs, values_for, small_frames, eq_states, packlens):
    """Apply every operation from state (w, v)."""
    from dali import frame as framemod
    ref = Ref(w, v)
    mk = lambda: F(w, v)
    base = {"w": w, "v": v}
    f = mk()
    _inv(f, w, res, base, "construction")
    # construction from a byte sequence gives the same state
    g = F(w, bytes(ref.bytes_be()))
    if not (g == f and g.as_integer == v):
        add_violation(res, "C05:ctor-bytes", f"Frame({w}, bytes) != Frame({w}, int {v})", dict(base, op="ctor-bytes"))
    res["transitions"] += 1
    # ---- views ------------------------------------------------------------------
    nbytes = (w + 7) // 8
    exp_bytes = ref.bytes_be()
    if f.as_integer != v or f.as_byte_sequence != exp_bytes or f.pack != bytes(exp_bytes) \
            or len(f.pack) != nbytes:
        add_violation(res, "C05:views", f"views of Frame({w},{v:#x}) wrong: {f.as_integer} {f.as_byte_sequence} {f.pack}", dict(base, op="views"))
    if F(w, f.pack) != f or F(w, f.as_byte_sequence) != f or F(w, f.as_integer) != f:
        add_violation(res, "C05:rebuild", "rebuilding from a view gives a different frame", dict(base, op="views"))
    res["transitions"] += 4
    res["distinct"].add(("views", "ok"))
    for l in packlens:
        case = dict(base, op="pack_len", l=l)
        if v < (1 << (8 * l)) and l >= 0:
            exp = v.to_bytes(l, "big")
            try:
                got = f.pack_len(l)
            except Exception as e:
                got = repr(e)
            if got != exp:
                add_violation(res, "C05:pack_len", f"pack_len({l}) -> {got!r}", case)
            res["transitions"] += 1
            res["distinct"].add(("pack_len", "ok"))
        else:
            _expect_exc(res, lambda: f.pack_len(l), OverflowError, f, w, v, "pack_len-overflow", case)
    # ---- contains / len -----------------------------------------------------------
    if (True in f) != (v != 0) or (False in f) != (v != (1 << w) - 1):
        add_violation(res, "C05:contains", f"True/False in Frame({w},{v:#x}) wrong", dict(base, op="contains"))
    for other in (0, 1, None, "x", 2):
        if other in f:
            add_violation(res, "C05:contains-other", f"{other!r} in frame is True", dict(base, op="contains"))
    res["transitions"] += 7
    res["distinct"].add(("contains", (v != 0, v != (1 << w) - 1)))
    # ---- bit read/write ------------------------------------------------------------
    for i in idxs:
        case = dict(base, op="getbit", i=i)
        if 0 <= i < w:
            got = f[i]
            if got is not bool(ref.bits[i]):
                add_violation(res, "C05:getbit", f"Frame({w},{v:#x})[{i}] -> {got!r}", case)
            res["transitions"] += 1
            res["distinct"].add(("getbit", got))
            for val in (0, 1, True, False, "x", "", None, 2, [0]):
              for warm in (True, False):
                h = _warm(mk()) if warm else mk()
                h[i] = val
                exp = v | (1 << i) if val else v & ~(1 << i)
                if not _views(h, w, exp, F):
                    add_violation(res, "C05:setbit", f"Frame({w},{v:#x})[{i}]={val!r} (views read before: {warm}) -> views show {h.as_integer:#x}/{h.pack!r}, expected {exp:#x}",
                                  dict(base, op="setbit", i=i, val=repr(val)))
                _inv(h, w, res, case, "setbit")
                res["transitions"] += 1
            res["distinct"].add(("setbit", "ok"))
        else:
            _expect_exc(res, lambda: f[i], IndexError, f, w, v, "getbit-range", case)
            h = mk()

            def wr():
                h[i] = 1
            _expect_exc(res, wr, IndexError, h, w, v, "setbit-range", dict(base, op="setbit", i=i, val="1"))
    for bad in ("a", 1.5, None, (1, 2)):
        case = dict(base, op="getbit", i=repr(bad))
        _expect_exc(res, lambda: f[bad], TypeError, f, w, v, "getbit-type", case)
        h = mk()

        def wr2():
            h[bad] = 1
        _expect_exc(res, wr2, TypeError, h, w, v, "setbit-type", case)
    # ---- slices --------------------------------------------------------------------
    for a in idxs:
        for b in idxs:
            hi, lo = max(a, b), min(a, b)
            case = dict(base, op="getslice", a=a, b=b)
            if lo < 0 or hi >= w:
                _expect_exc(res, lambda: f[a:b], IndexError, f, w, v, "getslice-range", case)
                h = mk()

                def wr3():
                    h[a:b] = 0
                _expect_exc(res, wr3, IndexError, h, w, v, "setslice-range", dict(base, op="setslice", a=a, b=b, val=0))
                continue
            n = hi - lo + 1
            exp = sum(ref.bits[lo + k] << k for k in range(n))
            got = f[a:b]
            if got != exp or type(got) is not int:
                add_violation(res, "C05:getslice", f"Frame({w},{v:#x})[{a}:{b}] -> {got!r} expected {exp}", case)
            res["transitions"] += 1
            res["distinct"].add(("getslice", n))
            for val in values_for(n):
                h = _warm(mk()) if (val & 1) else mk()      # alternate: views read before the write or not
                wcase = dict(base, op="setslice", a=a, b=b, val=val)
                if val < 0 or val >= (1 << n):
                    def wr4():
                        h[a:b] = val
                    _expect_exc(res, wr4, ValueError, h, w, v, "setslice-value", wcase)
                    continue
                h[a:b] = val
                nb = list(ref.bits)
                for k in range(n):
                    nb[lo + k] = (val >> k) & 1
                expv = sum(x << i for i, x in enumerate(nb))
                if not _views(h, w, expv, F):
                    add_violation(res, "C05:setslice", f"Frame({w},{v:#x})[{a}:{b}]={val:#x} -> views show {h.as_integer:#x}/{h.pack!r} expected {expv:#x}", wcase)
                _inv(h, w, res, wcase, "setslice")
                res["transitions"] += 1
            res["distinct"].add(("setslice", n))
            # non-integer value / stepped slices
            h = mk()
            for badv in (1.0, "1", None, b"\x01"):
                def wr5():
                    h[a:b] = badv
                _expect_exc(res, wr5, TypeError, h, w, v, "setslice-type", dict(base, op="setslice", a=a, b=b, val=repr(badv)))
    a0 = min(w - 1, 1)
    for step in (2, -1, 0):
        _expect_exc(res, lambda: f[a0:0:step], TypeError, f, w, v, "slice-step", dict(base, op="getslice-step", step=step))
        h = mk()

        def wr6():
            h[a0:0:step] = 0
        _expect_exc(res, wr6, TypeError, h, w, v, "slice-step", dict(base, op="setslice-step", step=step))
    for sl in (slice(None, 0), slice(0, None), slice("a", 0), slice(0, 1.5)):
        _expect_exc(res, lambda: f[sl], TypeError, f, w, v, "slice-index-type", dict(base, op="getslice-type", sl=repr(sl)))
    # ---- concatenation ---------------------------------------------------------------
    for (w2, v2) in small_frames:
        g = F(w2, v2)
        s = f + g
        case = dict(base, op="add", w2=w2, v2=v2)
        if len(s) != w + w2 or s.as_integer != (v << w2) | v2 or type(s) is not framemod.Frame:
            add_violation(res, "C05:add", f"Frame({w},{v:#x})+Frame({w2},{v2:#x}) -> {len(s)},{s.as_integer:#x}", case)
        _inv(s, w + w2, res, case, "add")
        if f.as_integer != v or g.as_integer != v2:
            add_violation(res, "C05:add-mutates", "operand changed by +", case)
        res["transitions"] += 1
        # the augmented spelling, with the old object still referenced elsewhere: "after any sequence of ... concatenations a frame's length is unchanged"
        h = mk()
        alias = h
        g = F(w2, v2)
        case = dict(base, op="iadd", w2=w2, v2=v2)
        h += g
        if len(h) != w + w2 or h.as_integer != (v << w2) | v2:
            add_violation(res, "C05:iadd", f"f = Frame({w},{v:#x}); f += Frame({w2},{v2:#x}) -> {len(h)},{h.as_integer:#x}", case)
        if len(alias) != w or alias.as_integer != v or len(g) != w2 or g.as_integer != v2 or not _views(alias, w, v, F):
            add_violation(res, "C05:iadd-mutates", f"f += g changed an existing frame object: the frame that was Frame({w},{v:#x}) is now "
                          f"{len(alias)} bits, {alias.as_integer:#x} (right operand {len(g)} bits, {g.as_integer:#x})", case)
        _inv(h, w + w2, res, case, "iadd")
        h2 = mk()
        keep = h2
        h2 += h2
        if len(keep) != w or keep.as_integer != v or len(h2) != 2 * w or h2.as_integer != (v << w) | v:
            add_violation(res, "C05:iadd-mutates", f"f += f on Frame({w},{v:#x}): old object {len(keep)} bits {keep.as_integer:#x}, result {len(h2)} bits {h2.as_integer:#x}",
                          dict(base, op="iadd-self"))
        res["transitions"] += 2
    res["distinct"].add(("add", "ok"))
    for bad in (1, "x", None, b"\x00", [1]):
        hb = mk()

        def wr7():
            nonlocal hb
            hb += bad
        _expect_exc(res, wr7, TypeError, hb, w, v, "iadd-type", dict(base, op="iadd-type", other=repr(bad)))
    for bad in (1, "x", None, b"\x00", [1]):
        _expect_exc(res, lambda: f + bad, TypeError, f, w, v, "add-type", dict(base, op="add-type", other=repr(bad)))
    # ---- equality ---------------------------------------------------------------------
    for (w2, v2) in eq_states:
        g = F(w2, v2)
        e = (w2 == w and v2 == v)
        if (f == g) is not e or (f != g) is not (not e):
            add_violation(res, "C05:eq", f"Frame({w},{v:#x}) ==/!= Frame({w2},{v2:#x}) wrong", dict(base, op="eq", w2=w2, v2=v2))
        res["transitions"] += 1
    for other in (v, None, "x", bytes(exp_bytes), (w, v)):
        if (f == other) is not False or (f != other) is not True:
            add_violation(res, "C05:eq-nonframe", f"frame == {other!r} not False", dict(base, op="eq-nonframe", other=repr(other)))
        res["transitions"] += 1
    res["distinct"].add(("eq", "ok"))
    if not _views(f, w, v, F):
        add_violation(res, "C05:read-mutates", "a read-only operation changed the frame", base)
    res["states"] += 1
    res["evaluations"] += 1
    res["traces"] += 1


def _small_env(W):
    small_frames = [(w2, v2) for w2 in range(1, 4) for v2 in range(1 << w2)]
    eq_states = [(w2, v2) for w2 in range(1, W + 1) for v2 in range(1 << w2)]
    return small_frames, eq_states


def run_shard(shard):
    from dali.frame import Frame
    res = new_result()
    if shard[0] == "small":
        _, w, lo, hi, W = shard
        small_frames, eq_states = _small_env(W)
        idxs = list(range(-1, w + 1))
        values_for = lambda n: range(-1, (1 << n) + 1)
        for v in range(lo, hi):
            explore_state(Frame, w, v, res, idxs, values_for, small_frames, eq_states, (0, 1, 2))
        sample(res, {"state": [w, lo], "ops": "all bit/slice/add/view/eq operations"})
    elif shard[0] == "big":
        _, w, tier = shard
        alt = int("10" * (w // 2 + 1), 2) & ((1 << w) - 1)
        vals = [0, 1, 1 << (w - 1), (1 << w) - 1, alt, alt >> 1, (1 << w) - 2]
        grid = sorted(set([-1, 0, 1, 7, 8, 9, w // 2, w - 9, w - 8, w - 2, w - 1, w, w + 1]))
        grid = [g for g in grid if g >= -1]
        if tier == "thorough":
            grid = sorted(set(grid + [15, 16, 17, 23, 24, 31, 32, 33, w // 2 + 1]))
            grid = [g for g in grid if g <= w + 1]

        def values_for(n):
            m = (1 << n)
            return sorted(set([-1, 0, 1, m // 2, m - 1, m, m + 1, (m - 1) // 3]))
        small_frames = [(1, 0), (1, 1), (3, 5), (8, 0xA5), (16, 0xFFFF), (64, (1 << 64) - 1)]
        eq_states = [(w, x) for x in vals] + [(w + 1, 0), (w - 1, 0), (8, 0)]
        nb = (w + 7) // 8
        for v in vals:
            explore_state(Frame, w, v, res, grid, values_for, small_frames, eq_states, (0, 1, nb - 1, nb, nb + 1))
        sample(res, {"state": [w, hex(vals[4])], "index_grid": grid})
    elif shard[0] == "subclasses":
        # "equality means same width and same bits" and all operations - also for the frame SUBCLASSES the library hands out
        # (ForwardFrame of any width, BackwardFrame and BackwardFrameError with their fixed 8 bits)
        from dali import frame as FM

        def factory(kind):
            def F(w, v):
                if kind == "forward":
                    return FM.ForwardFrame(w, v)
                if w == 8 and isinstance(v, int):
                    return FM.BackwardFrame(v) if kind == "backward" else FM.BackwardFrameError(v)
                return Frame(w, v)
            return F
        for kind in ("forward", "backward", "backward-error"):
            F = factory(kind)
            for w in ((8,) if kind != "forward" else (1, 8, 16, 24, 25)):
                idxs = sorted(set([-1, 0, 1, 7, 8, w - 1, w]))
                vf = (lambda n: sorted(set([-1, 0, 1, (1 << n) // 2, (1 << n) - 1, 1 << n])))
                vals = range(1 << w) if w == 8 else sorted(set([0, 1, (1 << w) - 1, int("10" * 13, 2) & ((1 << w) - 1)]))
                for v in vals:
                    if w == 8 and v % 5 and v not in (0, 1, 254, 255):
                        continue
                    explore_state(F, w, v, res, idxs, vf, [(1, 1), (8, 0xA5), (16, 0x1234)], [(w, v), (w, v ^ 1), (8, 0), (16, 0)], (0, 1, 2, 3))
        for v in range(256):
            objs = {"Frame": Frame(8, v), "ForwardFrame": FM.ForwardFrame(8, v), "BackwardFrame": FM.BackwardFrame(v), "BackwardFrameError": FM.BackwardFrameError(v)}
            other = {"Frame": Frame(8, v ^ 0x10), "BackwardFrameError": FM.BackwardFrameError(v ^ 0x10), "Frame9": Frame(9, v)}
            for an, a in objs.items():
                for bn, b in objs.items():
                    res["transitions"] += 1
                    if (a == b) is not True or (a != b) is not False:
                        add_violation(res, "C05:eq-subclass", f"{an}(8,{v:#x}) == {bn}(8,{v:#x}) is {a == b}, != is {a != b}: same width and bits",
                                      {"op": "eq-subclass", "w": 8, "v": v, "a": an, "b": bn})
                for bn, b in other.items():
                    res["transitions"] += 1
                    if (a == b) is not False or (a != b) is not True or (b == a) is not False:
                        add_violation(res, "C05:eq-subclass", f"{an}(8,{v:#x}) == {bn} with different width/bits is {a == b}",
                                      {"op": "eq-subclass", "w": 8, "v": v, "a": an, "b": bn})
                for view in (a.pack, a.as_byte_sequence, a.as_integer, a.pack_len(1), a.pack_len(3)):
                    res["transitions"] += 1
                    if not (Frame(8, view) == a and a == Frame(8, view)) or (Frame(8, view) != a):
                        add_violation(res, "C05:rebuild-subclass", f"Frame(8, {view!r}) is not equal to the {an} it was taken from",
                                      {"op": "eq-subclass", "w": 8, "v": v, "a": an, "b": "view"})
            res["evaluations"] += 1
        for v_ in res["violations"]:
            v_["case"]["subclass"] = True
        res["distinct"].add(("subclasses", "ok"))
        sample(res, {"subclasses": ["ForwardFrame", "BackwardFrame", "BackwardFrameError"]})
    elif shard[0] == "cross":
        _, wa, others = shard
        for wb in others:
            # fresh interpretation per pair is not possible inside one process; the order wa -> wb -> wa is what matters
            for w in (wa, wb, wa):
                alt = int("10" * (w // 2 + 1), 2) & ((1 << w) - 1)
                idxs = list(range(-1, w + 1)) if w <= 9 else sorted(set([-1, 0, 1, 7, 8, 9, 15, 16, w - 1, w]))
                vf = (lambda n: range(-1, (1 << n) + 1)) if w <= 5 else \
                    (lambda n: sorted(set([-1, 0, 1, (1 << n) // 2, (1 << n) - 1, 1 << n, ((1 << n) - 1) // 3])))
                small_frames = [(1, 1), (3, 5), (8, 0xA5), (wb, (1 << wb) - 1), (wa, 1)]
                for v in sorted(set([(1 << w) - 1, 0, alt])):
                    explore_state(Frame, w, v, res, idxs, vf, small_frames, [(w, v), (wa, 0), (wb, 0)], (0, 1, 2, 3))
        for v in res["violations"]:
            v["case"]["cross"] = [wa, list(others)]
        sample(res, {"cross_widths": [wa, list(others)]})
    else:
        # constructor domain
        W = shard[1]
        for w in range(1, W + 1):
            for v in (-1, -(1 << w), 1 << w, (1 << w) + 1, 1 << (w + 8)):
                res["evaluations"] += 1
                res["transitions"] += 1
                try:
                    Frame(w, v)
                    add_violation(res, "C05:ctor-accepts", f"Frame({w},{v}) accepted", {"op": "ctor", "w": w, "v": v})
                except ValueError:
                    res["distinct"].add(("ctor", "ValueError"))
                except Exception as e:
                    add_violation(res, "C05:ctor-wrong-exception", f"Frame({w},{v}) raised {e!r}", {"op": "ctor", "w": w, "v": v})
            # byte sequence too long for the width
            try:
                Frame(w, bytes([0xFF] * ((w + 7) // 8 + 1)))
                add_violation(res, "C05:ctor-accepts", f"Frame({w}, too many bytes) accepted", {"op": "ctor", "w": w, "v": "bytes"})
            except ValueError:
                pass
            res["transitions"] += 1
        for bits, exc in ((0, ValueError), (-1, ValueError), (1.5, TypeError), ("8", TypeError), (None, TypeError)):
            res["evaluations"] += 1
            res["transitions"] += 1
            try:
                Frame(bits, 0)
                add_violation(res, "C05:ctor-accepts", f"Frame({bits!r},0) accepted", {"op": "ctor", "w": repr(bits), "v": 0})
            except exc:
                res["distinct"].add(("ctor-bits", exc.__name__))
            except Exception as e:
                add_violation(res, "C05:ctor-wrong-exception", f"Frame({bits!r},0) raised {e!r}", {"op": "ctor", "w": repr(bits), "v": 0})
        # the same value domain through the constructors of the frame subclasses the library hands out
        from dali import frame as FM
        subs = [("BackwardFrame", lambda v: FM.BackwardFrame(v), 8), ("BackwardFrameError", lambda v: FM.BackwardFrameError(v), 8)] + \
               [(f"ForwardFrame({w})", (lambda v, w=w: FM.ForwardFrame(w, v)), w) for w in (1, 8, 16, 24, 25)]
        for name, mk, w in subs:
            for v in (-1, -2, -128, -255, -256, -257, -(1 << w), -(1 << 31), 1 << w, (1 << w) + 1, 1 << (w + 8), 1 << 64):
                res["evaluations"] += 1
                res["transitions"] += 1
                try:
                    fr = mk(v)
                    add_violation(res, "C05:ctor-accepts", f"{name} built from {v} accepted: as_integer {fr.as_integer}, len {len(fr)}", {"op": "ctor", "w": name, "v": v})
                except ValueError:
                    res["distinct"].add(("ctor-sub", name, "ValueError"))
                except Exception as e:
                    add_violation(res, "C05:ctor-wrong-exception", f"{name} built from {v} raised {e!r}", {"op": "ctor", "w": name, "v": v})
            for v in (0, 1, (1 << w) - 1, (1 << w) // 2):
                res["evaluations"] += 1
                fr = mk(v)
                if len(fr) != w or fr.as_integer != v or not (fr == Frame(w, v)) or fr.pack != Frame(w, v).pack:
                    add_violation(res, "C05:ctor-value", f"{name} built from {v}: len {len(fr)}, as_integer {fr.as_integer}", {"op": "ctor", "w": name, "v": v})
            for bad in (1.5, "1", None):
                res["evaluations"] += 1
                try:
                    mk(bad)
                    add_violation(res, "C05:ctor-accepts", f"{name} built from {bad!r} accepted", {"op": "ctor", "w": name, "v": repr(bad)})
                except (TypeError, ValueError):
                    pass
                except Exception as e:
                    add_violation(res, "C05:ctor-wrong-exception", f"{name} built from {bad!r} raised {e!r}", {"op": "ctor", "w": name, "v": repr(bad)})
        sample(res, {"ctor": "negative / oversized / non-integer width rejected"})
    return res


def replay(case):
    """Re-explore the single state named by the case and return its violations."""
    from dali.frame import Frame
    res = new_result()
    if case.get("op") == "ctor":
        r = run_shard(("ctor", 8))
        return r["violations"]
    if case.get("op") == "eq-subclass" or case.get("subclass"):
        return run_shard(("subclasses",))["violations"]
    if case.get("cross"):
        return run_shard(("cross", case["cross"][0], tuple(case["cross"][1])))["violations"]
    w, v = case["w"], case["v"]
    if w <= 12:
        small_frames, eq_states = _small_env(12)
        explore_state(Frame, w, v, res, list(range(-1, w + 1)), lambda n: range(-1, (1 << n) + 1),
                      small_frames, eq_states, (0, 1, 2))
    else:
        r = run_shard(("big", w, "thorough"))
        return r["violations"]
    return res["violations"]
