"""Two sequences alive at the same time (shared by the E2 checks).

A 'partnered' shard re-runs some of a check's ordinary shards while every run_sequence() call also drives a PARTNER
sequence of the same family on another bus (dalimc.env.gear102.PARTNER): entirely before the main sequence starts,
entirely after its k-th command, or command by command.  The main sequence is judged by the ordinary oracle; the partner
differentially - it must end exactly as it does when run alone (outcome, returned value, state of its units).
Generator-based sequences share nothing but module-level state of the library, so any difference is such state leaking.
"""
from dalimc.core.runner import new_result, add_violation, observe, sample, jsonable
from dalimc.env import gear102 as G

SWITCHES = [0, 1, 2, 3, 5, 9, "alt"]


def _norm(v):
    if isinstance(v, BaseException):
        return ("exc", type(v).__name__, str(v)[:80])
    if isinstance(v, (set, frozenset)):
        return ("set", sorted(map(repr, v)))
    if isinstance(v, dict):
        return ("dict", sorted((repr(k), repr(x)) for k, x in v.items()))
    r = repr(v)
    if " object at 0x" in r:            # default repr carries a memory address: compare class and text instead
        r = f"{type(v).__name__}:{v}"
    return r


def differential(make):
    """make() -> (generator, bus, snapshot()) ; returns a PARTNER factory whose judge compares with a run alone."""
    saved = G.PARTNER
    G.PARTNER = None
    try:
        gen, bus, snap = make()
        kind, val, n = G.run_sequence(gen, bus, 6000)
        alone = (kind, _norm(val), snap())
    finally:
        G.PARTNER = saved

    def factory():
        gen, bus, snap = make()

        def judge(kind, val):
            got = (kind, _norm(val), snap())
            if got != alone:
                return f"alone it ends {alone}, alive together with the other sequence {got}"
            return None
        return gen, bus, judge
    return factory


def run_partnered(mod, shard, partners, subshards):
    """shard = ("partnered", partner index, switch).  Runs mod.run_shard(sub) for every sub-shard under the partner."""
    _, pi, sw = shard
    name, make = partners[pi]
    agg = new_result()
    G.PARTNER_PROBLEMS.clear()
    G.PARTNER, G.PARTNER_SWITCH = differential(make), sw
    try:
        for sub in subshards:
            r = mod.run_shard(sub)
            for k in ("evaluations", "states", "transitions", "traces", "distinct_count"):
                agg[k] += r[k]
            agg["distinct"] |= r["distinct"]
            for v in r["violations"]:
                v["message"] = f"[partner sequence {name} alive on another bus, switch {sw}] " + v["message"]
                v["key"] = v["key"] + ":with-partner"
                v["case"] = {"__shard__": jsonable(shard)}
                if not any(x["key"] == v["key"] for x in agg["violations"]):
                    agg["violations"].append(v)
    finally:
        G.PARTNER = None
    for sw_, bad in G.PARTNER_PROBLEMS[:1]:
        add_violation(agg, f"{mod.ID}:partner-sequence:{name}", f"sequence {name} running on its own bus while the sequences of shards "
                      f"{[str(s)[:40] for s in subshards][:3]} run on another (switch {sw_}): {bad} ({len(G.PARTNER_PROBLEMS)} such runs)",
                      {"__shard__": jsonable(shard)})
    G.PARTNER_PROBLEMS.clear()
    observe(agg, "runs_with_partner_sequence", agg["evaluations"])
    agg["distinct"].add(("partnered", name, str(sw)))
    sample(agg, {"partner_sequence": name, "switch": sw, "subshards": [str(s)[:60] for s in subshards]})
    return agg


def partner_shards(partners, switches=None):
    return [("partnered", i, sw) for i in range(len(partners)) for sw in (switches or SWITCHES)]
