"""Shared enumeration of the constructible command/event space (C02, C03, C18).

Everything is driven by the literal reference tables (dalimc.spec.iec62386_tables): a
library class the tables do not know is reported as 'unclassified', never silently skipped.
"""
import importlib

from dalimc.spec import ref_codec as R
from dalimc.spec import iec62386_tables as T

EVENT_SCHEMES = ["device", "device_instance", "device_group", "instance", "instance_group"]
EVENT_CLASSES = [("device.pushbutton", n, 1, code) for code, n in sorted(R.PUSHBUTTON.items())] + \
    [("device.occupancy", "OccupancyEvent", 3, None), ("device.light", "LightEvent", 4, None)] + \
    [("device.general", "UnknownEvent", t, None) for t in (0, 2, 5, 31)]      # instance types without an implementing class
GENERIC = {("gear.general", "UnknownGearCommand"), ("device.general", "UnknownDeviceCommand"),
           ("device.general", "UnknownEvent"), ("device.general", "AmbiguousInstanceType"),
           ("gear.general", "DAPC")}

QUICK_INST = [(k, n) for k in ("InstanceNumber", "InstanceGroup", "InstanceType", "FeatureInstanceNumber",
                               "FeatureInstanceGroup", "FeatureInstanceType") for n in (0, 1, 30, 31)] + \
    [("FeatureInstanceBroadcast",), ("InstanceBroadcast",), ("FeatureDevice",)]
FULL_INST = [i for i in R.ALL_INSTANCES if i != ("Device",)]           # 195: 0xFE is the stated exclusion


def lib_class(mod, name):
    return getattr(importlib.import_module("dali." + mod), name)


def all_rows():
    for tab in ("GEAR_STD", "GEAR_SPECIAL", "DEV_STD", "DEV_INST", "DEV_SPECIAL"):
        for r in getattr(T, tab):
            yield tab, r


def row_descriptors(tab, r, tier):
    """All legal descriptors of one table row (argument product per tier)."""
    mod, name = r[0], r[1]
    if tab == "GEAR_STD":
        for a in R.ALL_GEAR_ADDRS:
            if r[3]:
                for p in range(16):
                    yield (mod, name, (a, p))
            else:
                yield (mod, name, (a,))
    elif tab == "GEAR_SPECIAL":
        pk = r[3]
        if pk == "none":
            yield (mod, name, ())
        elif pk == "byte":
            for p in range(256):
                yield (mod, name, (p,))
        elif pk == "shortaddr":
            for p in range(64):
                yield (mod, name, (p,))
            yield (mod, name, ("MASK",))
        else:
            yield (mod, name, ("broadcast", None))
            yield (mod, name, ("unaddressed", None))
            for p in range(64):
                yield (mod, name, ("address", p))
    elif tab == "DEV_STD":
        for a in R.ALL_DEV_ADDRS:
            yield (mod, name, (a,))
    elif tab == "DEV_INST":
        insts = QUICK_INST if tier == "quick" else FULL_INST
        for a in R.ALL_DEV_ADDRS:
            for i in insts:
                yield (mod, name, (a, i))
    elif tab == "DEV_SPECIAL":
        if r[4] == 0:
            yield (mod, name, ())
        elif r[4] == 1:
            for p in range(256):
                yield (mod, name, (p,))
        else:
            rng = list(range(256)) if tier == "thorough" else sorted(set(list(range(0, 256, 17)) + [1, 127, 128, 254, 255]))
            for a in rng:
                for b in rng:
                    yield (mod, name, (a, b))


def construct(desc, int_dest=False):
    """Build the library object for a descriptor through its public constructor."""
    mod, name, args = desc
    cls = lib_class(mod, name)
    if (mod, name) == ("gear.general", "DAPC"):
        dest = args[0][1] if int_dest else R.lib_mkaddr(args[0], "gear")
        return cls(dest, args[1])
    tab, r = R.BY_NAME[(mod, name)]
    if tab == "GEAR_STD":
        dest = args[0][1] if int_dest else R.lib_mkaddr(args[0], "gear")
        return cls(dest, *args[1:])
    if tab == "GEAR_SPECIAL":
        pk = r[3]
        if pk in ("none", "byte", "shortaddr"):
            return cls(*args)
        if args[0] == "broadcast":
            return cls(broadcast=True)
        if args[0] == "unaddressed":
            return cls()
        return cls(address=args[1])
    if tab == "DEV_STD":
        return cls(R.lib_mkaddr(args[0], "device"))
    if tab == "DEV_INST":
        return cls(R.lib_mkaddr(args[0], "device"), R.lib_mkinstance(args[1]))
    if tab == "DEV_SPECIAL":
        return cls(*args)
    raise AssertionError(desc)


def event_field_space(scheme, tier):
    """(short, inum, igroup, dgroup) combinations of one addressing scheme."""
    s64 = range(64) if tier == "thorough" else (0, 1, 31, 32, 62, 63)
    n32 = range(32) if tier == "thorough" else (0, 1, 15, 16, 30, 31)
    if scheme == "device":
        return [dict(short=s) for s in range(64)]
    if scheme == "device_instance":
        return [dict(short=s, inum=i) for s in s64 for i in n32]
    if scheme == "device_group":
        return [dict(dgroup=g) for g in range(32)]
    if scheme == "instance":
        return [dict(inum=i) for i in range(32)]
    return [dict(igroup=g) for g in range(32)]


def event_data_space(name, tier):
    if name == "OccupancyEvent":
        return list(range(16))
    if name == "UnknownEvent":
        return [0, 1, 2, 15, 16, 512, 1023] if tier == "quick" else list(range(0, 1024, 7)) + [1023]
    if name == "LightEvent":
        return list(range(1024)) if tier == "thorough" else sorted(set(list(range(0, 1024, 37)) + [1, 2, 255, 256, 511, 512, 1022, 1023]))
    return [None]


def construct_event(mod, name, fields, data, form="int", itype=None):
    cls = lib_class(mod, name)
    kw = {}
    if fields.get("short") is not None:
        if form == "obj":
            from dali.address import DeviceShort
            kw["short_address"] = DeviceShort(fields["short"])
        else:
            kw["short_address"] = fields["short"]
    if fields.get("inum") is not None:
        kw["instance_number"] = fields["inum"]
    if fields.get("igroup") is not None:
        kw["instance_group"] = fields["igroup"]
    if fields.get("dgroup") is not None:
        kw["device_group"] = fields["dgroup"]
    if name == "OccupancyEvent":
        if form in ("obj", "objlit"):
            word = "movement" if data & 8 else "presence"
            if form == "obj":
                word = "".join(list(word))          # an equal string built at run time (as from JSON, a pickle, user input) - not the interned literal
            kw["data"] = cls.EventData(movement=bool(data & 1), occupied=bool(data & 2), repeat=bool(data & 4), sensor_type=word)
        else:
            kw["data"] = data
    elif name in ("LightEvent", "UnknownEvent"):
        kw["data"] = data
    if name == "UnknownEvent":
        kw["instance_type"] = itype
    return cls(**kw)


def event_expected(mod, name, itype, code, scheme, fields, data):
    """Reference frame value + reference descriptor of an event."""
    raw = code if code is not None else data
    v = R.encode_event(scheme, itype, raw, short=fields.get("short"), inum=fields.get("inum"),
                       igroup=fields.get("igroup"), dgroup=fields.get("dgroup"))
    return v
