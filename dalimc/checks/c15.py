"""C15 - async drivers keep transactions atomic and device-type prefixes adjacent.

E3: the real asyncio drivers (HID Tridonic, HID hasseb, Lunatone LUBA, Lunatone SCI) run on
the virtual event loop against gateway models; 2-4 concurrent callers; ALL schedules with at
most d deviations from the sequential default (caller start points, gateway report delivery,
timer expiry, cancellation) are executed and the frames the gateway received are compared
with an independently computed expansion of each caller.
"""
import itertools

from dalimc.core.runner import new_result, add_violation, observe, sample
from dalimc.core.explorer import explore, Chooser
from dalimc.spec import ref_codec as R
from dalimc.aio.engine import execute, Caller

ID = "C15"
OPTIMISED_STRIDE = {"quick": 12, "thorough": 24}      # every k-th shard once more in an interpreter started with -O
TRACE_STRIDE = {"quick": 10, "thorough": 24}      # every k-th shard once more with logging enabled down to TRACE
LEVEL = "model_checking"
ENGINE = "E3"
TECHNIQUE = "controlled-scheduler exploration (iterative deviation bounding) of the real asyncio drivers on a virtual event loop against gateway models; wire log vs independent per-caller expansion"
RULE = ("scenario = driver x ordered list of callers from {P single command, Q query, D device-type command, C device-type send-twice command, T send-twice, "
        "S multi-command sequence with device type + sleep, M sequence switching between three device types, R sequence that raises, X cancellable sequence, Y cancellable single send}; "
        "callers started one after the other (start = deviation) and, for the cancellation triples, all started back to back; all schedules with "
        "<= d deviations over {run batch, gateway report, start next caller, timer, cancel}; states = distinct (wire order, caller "
        "outcomes) observations, transitions = scheduler events executed, traces = executions")
ASSUMPTIONS = [
    "gateway models of dalimc.aio.hidworld / serialworld (packet grammar from the driver sources; FIFO transmission)",
    "the explorer executes whole event-loop iterations and injects external events only at iteration boundaries, so every explored order is one a real selector loop can produce",
    "callers are started at iteration boundaries (under-approximation of task placement inside a batch)",
    "a serial send that ends in TimeoutError because a timer deviation let the confirmation timeout fire first counts as completed",
]
SANITY = ["wire_frames_tridonic", "wire_frames_hasseb", "wire_frames_luba", "wire_frames_sci", "executions_with_cancel",
          "executions_with_two_callers_on_the_wire"]
BOUNDS = {"quick": "4 drivers x (64 ordered caller pairs at d<=1, 12 pairs at d<=2, 27 triples at d<=1; eager start: 18 triples with a cancellable middle caller at d<=1, 6 pairs at d<=2)",
          "thorough": "4 drivers x (all pairs at d<=2, 6 pairs at d<=3, all 512 triples at d<=1, 27 triples at d<=2, 16 quadruples at d<=1)"}

KINDS = ["P", "Q", "D", "C", "T", "S", "R", "X"]
DRIVERS = ["tridonic", "hasseb", "luba", "sci"]
DT = {1: 6, 2: 8, 3: 1, 4: 4}


def bus(bits, value, idx):
    if bits == 16 and (value >> 8) & 1 and (value & 0xFF) >= 0x90 and R.gear_addr(value >> 9) is not None:
        return ("value", 0x40 | ((value >> 9) & 0x3F))
    return ("none",)


# ----------------------------------------------------------------------------- reference expansion

def dt_cmd_desc(k):
    a = ("short", k)
    return {6: ("gear.led", "QueryFastFadeTime", (a,)), 8: ("gear.colour", "Activate", (a,)),
            1: ("gear.emergency", "QueryEmergencyMode", (a,)), 4: ("gear.incandescent", "QueryDimmerStatus", (a,))}[DT[k]]


def unit_descs(kind, k):
    """Reference: list of (descriptor, devicetype) a caller of this kind must put on the wire."""
    a = ("short", k)
    G = "gear.general"
    if kind == "P":
        return [((G, "Off", (a,)), 0)]
    if kind == "Q":
        return [((G, "QueryActualLevel", (a,)), 0)]
    if kind == "Y":         # a plain send() that its caller may cancel (e.g. wait_for timeout) at any point
        return [((G, "QueryStatus", (a,)), 0)]
    if kind == "D":
        return [(dt_cmd_desc(k), DT[k])]
    if kind == "T":
        return [((G, "SetScene", (a, k)), 0)]
    if kind == "C":         # device-type specific AND send-twice
        return [(("gear.led", "SelectDimmingCurve", (a,)), 6)]
    if kind in ("S", "X"):
        return [((G, "DTR0", (k,)), 0), ((G, "SetFadeTime", (a,)), 0), (dt_cmd_desc(k), DT[k]),
                ((G, "QueryStatus", (a,)), 0)]
    if kind == "R":
        return [((G, "DTR1", (k,)), 0), (dt_cmd_desc(k), DT[k])]
    if kind == "Z":         # a frame the gateway cannot carry (24-bit on hasseb), sent with exceptions switched off: refused, nothing on the wire
        return []
    if kind == "W":         # hand-written transaction holding transaction_lock itself (in_transaction=True calls), incl. power_supply
        return [((G, "DTR0", (k,)), 0), ("power", 1), ((G, "QueryStatus", (a,)), 0), ((G, "DTR1", (k,)), 0)]
    if kind == "M":         # ONE sequence with commands of several different device types
        return [(("gear.led", "QueryFastFadeTime", (a,)), 6), (("gear.colour", "Activate", (a,)), 8), ((G, "QueryStatus", (a,)), 0),
                (("gear.emergency", "QueryEmergencyMode", (a,)), 1), (("gear.led", "QueryFastFadeTime", (a,)), 6)]
    raise AssertionError(kind)


def expand(kind, k, driver):
    """Frames in wire order: (bits, value, twice) with the device-type prefix inserted."""
    out = []
    for desc, dt in unit_descs(kind, k):
        if desc == "power":
            out.append(("power", dt, False))
            continue
        if dt:
            b, v = R.encode(("gear.general", "EnableDeviceType", (dt,)))
            out.append((b, v, False))
        b, v = R.encode(desc)
        tab, row = R.BY_NAME[(desc[0], desc[1])]
        twice = row[5] if tab == "GEAR_STD" else row[4]
        if driver == "hasseb" and twice:
            out += [(b, v, False), (b, v, False)]       # hasseb: the driver writes the frame twice
        else:
            out.append((b, v, twice))
    return out


# ----------------------------------------------------------------------------- callers (library side)

def make_caller(kind, k, gens):
    from dali.gear import general as gg
    from dali import sequences as seqs
    from dali.address import GearShort
    import importlib

    def lib(desc):
        mod, name, args = desc
        cls = getattr(importlib.import_module("dali." + mod), name)
        largs = [GearShort(x[1]) if isinstance(x, tuple) else x for x in args]
        return cls(*largs)
    descs = [d for d, dt in unit_descs(kind, k)]
    if kind == "Z":
        async def co(w):
            from dali.device.general import QueryDeviceStatus
            from dali.address import DeviceShort
            return await w.driver.send(QueryDeviceStatus(DeviceShort(k)), exceptions=False)
        return Caller(f"{kind}{k}", co)
    if kind == "W":
        async def co(w):
            d = w.driver
            async with d.transaction_lock:
                await d.send(lib(descs[0]), in_transaction=True)
                await d.power_supply(True, in_transaction=True)
                r = await d.send(lib(descs[2]), in_transaction=True)
                await d.send(lib(descs[3]), in_transaction=True)
            return ("done", k, r is not None)
        return Caller(f"{kind}{k}", co)
    if kind in ("P", "Q", "D", "T", "C", "Y"):
        async def co(w):
            return await w.driver.send(lib(descs[0]))
        return Caller(f"{kind}{k}", co, cancellable=(kind == "Y"))
    if kind in ("S", "X"):
        def gen():
            yield lib(descs[0])
            yield lib(descs[1])
            yield lib(descs[2])
            yield seqs.sleep(0.1)
            yield seqs.progress(message="x")
            r = yield lib(descs[3])
            return ("done", k)

        async def co(w):
            g = gen()
            gens[f"{kind}{k}"] = g
            return await w.driver.run_sequence(g)
        return Caller(f"{kind}{k}", co, cancellable=(kind == "X"))
    if kind == "M":
        def gen():
            for d in descs:
                yield lib(d)
            return ("done", k)

        async def co(w):
            g = gen()
            gens[f"{kind}{k}"] = g
            return await w.driver.run_sequence(g)
        return Caller(f"{kind}{k}", co)
    if kind == "R":
        def gen():
            yield lib(descs[0])
            yield lib(descs[1])
            raise RuntimeError(f"sequence {k} fails")

        async def co(w):
            g = gen()
            gens[f"{kind}{k}"] = g
            return await w.driver.run_sequence(g)
        return Caller(f"{kind}{k}", co)
    raise AssertionError(kind)


def make_world(driver, kinds, eager=False, observers=False):
    def make():
        gens = {}
        callers = [make_caller(kd, i + 1, gens) for i, kd in enumerate(kinds)]
        if driver in ("tridonic", "hasseb"):
            from dalimc.aio.hidworld import HidWorld
            w = HidWorld(driver, bus, callers)
            w.reorder_reports = True
            w.oneshot_observers = observers
        else:
            from dalimc.aio.serialworld import SerialWorld
            w = SerialWorld(driver, bus, callers)
        w.gens = gens
        w.timer_budget = 12
        w.eager_start = eager
        return w
    return make


# ----------------------------------------------------------------------------- oracle

def partition(wire, units, outcomes):
    """Is the wire log a concatenation of caller units (full for callers that returned, any
    prefix for raised / cancelled ones), each caller at most once?  Backtracking search (an
    ENABLE DEVICE TYPE frame can belong to either of two callers using the same device type).
    Returns None or an error string."""
    n = len(wire)
    names = [nm for nm in units if units[nm]]

    def rec(pos, used):
        if pos == n:
            for nm in names:
                if nm not in used and outcomes[nm][0] == "returned":
                    return False
            return True
        for nm in names:
            if nm in used:
                continue
            frames = units[nm]
            m = 0
            while m < len(frames) and pos + m < n and wire[pos + m] == frames[m]:
                m += 1
            lens = [len(frames)] if outcomes[nm][0] == "returned" else range(m, 0, -1)
            for L in lens:
                if L <= m and rec(pos + L, used | {nm}):
                    return True
        return False
    if rec(0, frozenset()):
        return None
    return f"the wire {[fmt(x) for x in wire]} is not a concatenation of whole caller units {{{', '.join(nm + ': ' + ' '.join(fmt(x) for x in fr) for nm, fr in units.items())}}} (outcomes {[(nm, outcomes[nm][0]) for nm in names]})"


def fmt(f):
    if f[0] == "power":
        return f"power({f[1]})"
    return f"{f[1]:#06x}" + ("x2" if f[2] else "")


def judge(res, driver, kinds, w, obs):
    case = {"driver": driver, "kinds": list(kinds), "trace_len": len(w.trace)}
    tag = f"{driver}"
    wire = [(b, v, t) for (b, v, t, _) in obs["wire"] if isinstance(b, int) or b == "power"]
    if driver in ("luba", "sci"):
        pass
    names = [f"{kd}{i + 1}" for i, kd in enumerate(kinds)]
    units = {nm: expand(kd, i + 1, driver) for i, (nm, kd) in enumerate(zip(names, kinds))}
    outcomes = {nm: oc for nm, oc in zip(names, obs["callers"])}
    observe(res, f"wire_frames_{driver}", len(wire))
    if any(x.startswith("cancel:") for x in w.trace):
        observe(res, "executions_with_cancel")
    if len({u for u in range(len(names)) if any(f in wire for f in units[names[u]])}) > 1:
        observe(res, "executions_with_two_callers_on_the_wire")
    if w.status != "quiescent":
        add_violation(res, f"C15:{tag}:horizon", f"{driver} {kinds}: no quiescence within the step horizon", case)
        return "horizon"
    err = partition(wire, units, outcomes)
    if err:
        # name the two most useful classes of interleaving defect
        key = "unit-interleaved"
        if any(units[nm] and not _has_prefixes(wire, units[nm]) for nm in names):
            key = "devicetype-prefix-missing-or-not-adjacent"
        add_violation(res, f"C15:{tag}:{key}", f"{driver} callers {kinds}: {err}", case)
    for nm, oc in outcomes.items():
        kd = nm[0]
        if oc[0] in ("pending", "not-started"):
            add_violation(res, f"C15:{tag}:caller-hangs", f"{driver} {kinds}: caller {nm} is {oc[0]} at quiescence (trace tail {w.trace[-6:]})", case)
        elif oc[0] == "raised":
            ok = (kd == "R" and oc[1] == "RuntimeError") or (driver in ("luba", "sci") and oc[1] == "TimeoutError") or \
                (kd == "Z" and oc[1] == "UnsupportedFrameTypeError")
            if not ok:
                add_violation(res, f"C15:{tag}:caller-raised:{oc[1]}", f"{driver} {kinds}: caller {nm} raised {oc[1:]}", case)
        elif oc[0] == "cancelled" and kd not in ("X", "Y"):
            add_violation(res, f"C15:{tag}:caller-cancelled", f"{driver} {kinds}: caller {nm} was cancelled by nobody", case)
        elif oc[0] == "returned" and kd == "R":
            add_violation(res, f"C15:{tag}:exception-swallowed", f"{driver} {kinds}: raising sequence {nm} returned {oc[1]!r}", case)
    if obs["lock"]:
        add_violation(res, f"C15:{tag}:lock-held", f"{driver} {kinds}: transaction lock still held at quiescence; outcomes {list(outcomes.values())}", case)
    import inspect
    for nm, g in w.gens.items():
        # a generator that was never started (caller cancelled while still queueing for the lock) holds nothing
        if outcomes[nm][0] in ("raised", "cancelled", "returned") and inspect.getgeneratorstate(g) == inspect.GEN_SUSPENDED:
            add_violation(res, f"C15:{tag}:sequence-not-closed", f"{driver} {kinds}: generator of {nm} still open after {outcomes[nm][0]}", case)
    if w.loop_exceptions:
        add_violation(res, f"C15:{tag}:loop-exception", f"{driver} {kinds}: exception reached the event loop: {w.loop_exceptions[:2]}", case)
    return (tuple(fmt(x) for x in wire), tuple(o[0] for o in obs["callers"]))


def _has_prefixes(wire, frames):
    """every device-type command of this unit that is on the wire is immediately preceded by an 0xC1xx frame"""
    for i, f in enumerate(frames):
        if i and frames[i - 1][0] != "power" and (frames[i - 1][1] >> 8) == 0xC1:
            for j, wf in enumerate(wire):
                if wf == f and (j == 0 or wire[j - 1][0] == "power" or (wire[j - 1][1] >> 8) != 0xC1):
                    return False
    return True


# ----------------------------------------------------------------------------- shards

SELECT_PAIRS = [("S", "D"), ("D", "S"), ("S", "S"), ("X", "D"), ("D", "D"), ("T", "D"), ("S", "Q"), ("R", "D"),
                ("X", "S"), ("D", "X"), ("Q", "Q"), ("S", "T")]


def shards(tier):
    out = []
    for drv in DRIVERS:
        for pair in itertools.product(KINDS, repeat=2):
            out.append(("run", drv, pair, 1 if tier == "quick" else 2))
        for pair in SELECT_PAIRS:
            if tier == "quick":
                out.append(("run", drv, pair, 2))
            elif pair in SELECT_PAIRS[:6]:
                out.append(("run", drv, pair, 3))
        if tier == "quick":
            for tr in itertools.product(["S", "D", "X"], repeat=3):
                out.append(("run", drv, tr, 1))
        else:
            for tr in itertools.product(KINDS, repeat=3):
                out.append(("run", drv, tr, 1))
            for tr in itertools.product(["S", "D", "X"], repeat=3):
                out.append(("run", drv, tr, 2))
            for q in itertools.product(["S", "D"], repeat=4):
                out.append(("run", drv, q, 1))
        # a hand-written transaction (the caller holds transaction_lock; send / power_supply with in_transaction=True)
        if drv == "tridonic":
            for shard_ in (("eager", drv, ("W", "P", "S"), 1), ("eager", drv, ("W", "Q"), 2), ("run", drv, ("W", "P"), 1 if tier == "quick" else 2),
                           ("run", drv, ("P", "W"), 1), ("eager", drv, ("S", "W", "D"), 1), ("run", drv, ("W",), 2)):
                out.append(shard_)
        if drv == "hasseb":
            for shard_ in (("run", drv, ("Z", "P"), 1), ("eager", drv, ("Z", "S", "Q"), 1), ("eager", drv, ("S", "Z"), 1)):
                out.append(shard_)
        # self-unregistering application observers on bus_traffic / connection status (HID drivers)
        if drv in ("tridonic", "hasseb"):
            for pair in (("D", "P"), ("S", "D"), ("P", "S"), ("D", "D"), ("X", "D")):
                out.append(("run-obs", drv, pair, 1 if tier == "quick" else 2))
            out.append(("eager-obs", drv, ("D", "P", "S"), 1))
        # one sequence that switches between device types (the prefix must match EACH command)
        out.append(("run", drv, ("M",), 2))
        for x in ("P", "Q", "D", "S", "M"):
            out.append(("run", drv, ("M", x), 1 if tier == "quick" else 2))
            if x != "M":
                out.append(("run", drv, (x, "M"), 1 if tier == "quick" else 2))
        # all callers started back to back (start is the default event), the middle one cancellable: a caller
        # cancelled while it is still queueing for the lock, behind one that is in flight and ahead of another
        for a in ("Q", "S", "D"):
            for mid in ("Y", "X"):
                for c in ("Q", "D", "S"):
                    out.append(("eager", drv, (a, mid, c), 1 if tier == "quick" else 2))
            out.append(("eager", drv, (a, "Y"), 2))
            out.append(("eager", drv, ("Y", a), 2))
    return out


def run_shard(shard):
    res = new_result()
    mode, drv, kinds, bound = shard
    mk = make_world(drv, kinds, eager=(mode.startswith("eager")), observers=mode.endswith("-obs"))
    outs = set()
    for ch, got in explore(lambda c: execute(mk, c), bound):
        w, obs = got
        o = judge(res, drv, kinds, w, obs)
        outs.add(o)
        res["evaluations"] += 1
        res["traces"] += 1
        res["transitions"] += len(w.trace)
        if res["evaluations"] % 50 == 1 and len(res["violations"]):
            pass
    # attach the schedule to each violation for replay (re-found by exploring the same scenario)
    for v in res["violations"]:
        v["case"]["bound"] = bound
        v["case"]["eager"] = mode.startswith("eager")
        v["case"]["observers"] = mode.endswith("-obs")
    res["states"] = len(outs)
    res["distinct"] = {(drv, tuple(kinds), o) for o in outs}
    sample(res, {"driver": drv, "callers": list(kinds), "bound": bound, "executions": res["evaluations"],
                 "distinct_observations": len(outs)})
    return res


def replay(case):
    res = new_result()
    drv, kinds, bound = case["driver"], tuple(case["kinds"]), case.get("bound", 2)
    mk = make_world(drv, kinds, eager=case.get("eager", False), observers=case.get("observers", False))
    first = None
    for ch, got in explore(lambda c: execute(mk, c), bound):
        w, obs = got
        n0 = len(res["violations"])
        judge(res, drv, kinds, w, obs)
        if len(res["violations"]) > n0 and first is None:
            first = (ch.choices, list(w.trace), obs["wire"])
    if first:
        print("   first failing schedule (choice indices):", first[0])
        print("   events:", first[1])
        print("   wire:", [fmt((b, v, t)) for b, v, t, _ in first[2] if isinstance(b, int)])
    return res["violations"]
