"""C01 - every forward frame decodes, and the decoded command re-encodes to it.

E1: exhaustive enumeration of frame spaces against the table-driven reference decoder
(dalimc.spec.ref_codec); order-independence as exhaustive operation sequences (pairs /
triples of decodes and constructions) plus registry snapshots around every shard.
"""
import itertools

from dalimc.core.runner import new_result, add_violation, observe, sample
from dalimc.spec import ref_codec as R

ID = "C01"
OPTIMISED_STRIDE = {"quick": 16, "thorough": 64}      # every k-th shard once more in an interpreter started with -O
TRACE_STRIDE = {"quick": 16, "thorough": 64}      # every k-th shard once more with logging enabled down to TRACE
LEVEL = "exploration"
ENGINE = "E1"
TECHNIQUE = "exhaustive enumeration of frame spaces through the real from_frame vs a table-driven reference decoder; decode-order sequences enumerated exhaustively"
RULE = ("16-bit: every frame x device type; 24-bit: every frame without map; device/instance event frames x "
        "maps resolving to types 1,3,4,0,31 / no entry / empty map / None; other lengths 1..64 x structured values; "
        "order: all ordered pairs (and triples) over a per-branch alphabet, each compared with a fresh-baseline decode; "
        "distinct = distinct decoded classes x (device type | map kind) observed")
ASSUMPTIONS = [
    "reference decoder written from the IEC 62386-102/103 frame layouts and the literal command table (rows of parts 202/205/206 pinned from the tree)",
    "a standard opcode (<224) decoded under a foreign device type comes back as UnknownGearCommand in the library; the property only demands a faithful generic command there, so this is counted as an observation, not a violation",
    "the whole library (dali.gear, dali.device) is imported before judging; that importing the two packages registers every decoder is checked separately by C03 (fresh interpreter)",
]
CHAIN_STRIDE = {'quick': 12, 'thorough': 60}      # every k-th shard is re-run in chains inside one process (non-initial process states)
BOUNDS = {
    "quick": "2^16 frames x 10 device types; 24-bit: all 2^16 (address,instance) x 24 opcodes + all 2^16 (instance,opcode) x 32 address bytes; dev/inst events: 2^16 slice x 8 maps; lengths 1..64; order pairs over 72-frame alphabet, triples over 24",
    "thorough": "2^16 frames x all 256 device types; all 2^24 24-bit frames; all 2^21 dev/inst event frames x 8 maps; lengths 1..64; order pairs + triples over the full alphabet",
}

QUICK_DTS = [0, 1, 2, 4, 5, 6, 8, 7, 254, 255]
MAPKINDS = [1, 3, 4, 0, 31, "noentry", "empty", "nomap"]


def shards(tier):
    out = []
    if tier == "quick":
        for dt in QUICK_DTS:
            for lo in range(0, 65536, 32768):
                out.append(("g16", dt, lo, lo + 32768))
        ops = [0x00, 0x01, 0x0A, 0x10, 0x21, 0x22, 0x30, 0x3C, 0x48, 0x49, 0x61, 0x68, 0x80, 0x8B,
               0x8C, 0x92, 0x93, 0x20, 0x2F, 0x33, 0x3F, 0x40, 0xFE, 0xFF]
        for i in range(0, len(ops), 3):
            out.append(("d24_upper", ops[i:i + 3]))
        uppers = [0x00, 0x01, 0x02, 0x7F, 0x80, 0x81, 0x82, 0xBF, 0xC0, 0xC1, 0xC2, 0xC3, 0xC5, 0xC7,
                  0xC9, 0xCB, 0xFC, 0xFD, 0xFE, 0xFF, 0x7E, 0x41, 0xA0, 0xA1, 0xDF, 0xE0, 0xE1, 0x3E,
                  0x3F, 0x9F, 0xBE, 0xC4]
        for i in range(0, len(uppers), 4):
            out.append(("d24_lower", uppers[i:i + 4]))
        for mk in MAPKINDS:
            out.append(("evq", mk))
        for mk in MAPKINDS:
            if mk != "nomap":
                out.append(("evs", mk, 0, 128, "quick"))
        out.append(("order", "pairs", 0, 1))
        out.append(("order", "mapmut", 0, 1))
        out.append(("order", "first", 0, 1))
        out.append(("order", "threads", 0, 1))
        for p in range(4):
            out.append(("order", "triples_small", p, 4))
    else:
        for dt in range(256):
            out.append(("g16", dt, 0, 65536))
        for hb in range(256):
            out.append(("d24_full", hb))
        for mk in MAPKINDS:
            for s0 in range(0, 64, 8):
                out.append(("evt", mk, s0, s0 + 8))
        for mk in MAPKINDS:
            if mk != "nomap":
                for t0 in range(0, 128, 16):
                    out.append(("evs", mk, t0, t0 + 16, "full"))
        out.append(("order", "pairs", 0, 1))
        out.append(("order", "mapmut", 0, 1))
        out.append(("order", "first", 0, 1))
        out.append(("order", "threads", 0, 1))
        for p in range(32):
            out.append(("order", "triples", p, 32))
    out.append(("len",))
    out.append(("framesub",))
    return out


# ----------------------------------------------------------------------------- helpers

def registries():
    from dali import command, address
    from dali.gear import general as gg
    from dali.device import general as dg
    from dali.device import pushbutton as pb

    def d(x):
        if isinstance(x, dict):
            return tuple(sorted((repr(k), id(v)) for k, v in x.items()))
        return tuple(id(v) if isinstance(v, type) else repr(v) for v in x)
    return (
        d(command.Command._commands), d(gg._StandardCommand._opcodes), d(gg._SpecialCommand._opcodes),
        tuple(sorted((k, d(v)) for k, v in command.Command._framesizes.items())),
        d(gg._GearCommand._gearcommands), d(dg._DeviceCommand._devicecommands),
        d(dg._StandardDeviceCommand._opcodes), d(dg._StandardInstanceCommand._opcodes),
        d(dg._Event._instance_types), d(pb._PushbuttonEvent._event_classes),
        d(address.Address._addrtypes), tuple(sorted(command.Command._supported_devicetypes)),
    )


def make_map(kind):
    from dali.device.helpers import DeviceInstanceTypeMapper
    if kind == "nomap":
        return None, "nomap"
    m = DeviceInstanceTypeMapper()
    if kind == "empty":
        return m, None
    if kind == "noentry":
        # entries exist, but never for the (address, instance) being decoded: the slice
        # enumerated for this kind uses instance numbers != 7 and the map only knows 7
        for a in range(64):
            m.add_type(short_address=a, instance_number=7, instance_type=1)
        return m, None
    for a in range(64):
        for i in range(32):
            m.add_type(short_address=a, instance_number=i, instance_type=kind)
    return m, kind


def decode_check(res, bits, v, dt, dmap, maptype, mk, from_frame, FF, Command, cache_key=None):
    """One decode of the real library compared with the reference."""
    case = {"bits": bits, "value": v, "dt": dt, "map": mk}
    try:
        r = from_frame(FF(bits, v), devicetype=dt, dev_inst_map=dmap)
    except Exception as e:
        add_violation(res, f"C01:decode-raises:{bits}", f"from_frame({bits},{v:#x},dt={dt},map={mk}) raised {e!r}", case)
        return None
    fr = getattr(r, "frame", None)
    if not isinstance(r, Command) or fr is None or len(fr) != bits or fr.as_integer != v:
        got = None if fr is None else (len(fr), hex(fr.as_integer))
        add_violation(res, f"C01:frame-not-identical:{bits}",
                      f"from_frame({bits},{v:#x},dt={dt},map={mk}) -> {type(r).__name__} with frame {got}", case)
        return None
    if bits == 16:
        exp = R.decode16(v, dt)
    elif bits == 24:
        exp = R.decode24(v, maptype)
    else:
        exp = ("command", "Command", (v,))
    try:
        txt = str(r)
        if not isinstance(txt, str):
            raise TypeError("str() returned " + type(txt).__name__)
    except Exception as e:
        add_violation(res, f"C01:str-raises:{bits}", f"str(from_frame({bits},{v:#x},dt={dt},map={mk})) raised {e!r}", case)
    try:
        got = R.describe(r)
    except Exception as e:
        add_violation(res, f"C01:describe:{bits}", f"attributes of decoded {type(r).__name__} unreadable: {e!r}", case)
        return None
    if got != exp:
        # documented tolerance: standard opcode under a foreign device type -> unknown
        if bits == 16 and dt != 0 and got[1] == "UnknownGearCommand":
            exp0 = R.decode16(v, 0)
            std = (exp0[0], exp0[1]) in R.BY_NAME and R.BY_NAME[(exp0[0], exp0[1])][0] == "GEAR_STD"      # an addressed standard command (not DAPC, not a special command)
            if exp[1] == "UnknownGearCommand" or (std and (v & 0xFF) < 224):
                observe(res, "std_opcode_under_foreign_dt_decoded_unknown")
                return got
        add_violation(res, f"C01:wrong-decode:{exp[0]}.{exp[1]}",
                      f"from_frame({bits},{v:#x},dt={dt},map={mk}) -> {got}, reference {exp}", case)
    return got


def str_check(res, r_desc, bits, v, dt, dmap, mk, from_frame, FF):
    try:
        s = str(from_frame(FF(bits, v), devicetype=dt, dev_inst_map=dmap))
        if not isinstance(s, str):
            raise TypeError("str() returned non-str")
    except Exception as e:
        add_violation(res, f"C01:str-raises:{bits}", f"str(from_frame({bits},{v:#x},dt={dt},map={mk})) raised {e!r}",
                      {"bits": bits, "value": v, "dt": dt, "map": mk, "str": True})


def order_alphabet():
    """One representative per dispatch branch: (bits, value, dt, mapkind)."""
    A = []
    for v in (0x0000, 0x01FE, 0xFEFF, 0x8080,                        # DAPC short/bcast/group
              0x0100, 0x0110, 0x0190, 0x01E0, 0x01FF, 0xFF20, 0x8360,  # standard
              0xA100, 0xA101, 0xA300, 0xA5FF, 0xA500, 0xA503, 0xA502, 0xB7FF, 0xB703, 0xB702,
              0xC106, 0xC108, 0xBB00, 0xA000, 0xCB00, 0xFC00, 0xFD01):
        A.append((16, v, 0, "nomap"))
    for dt in (1, 4, 5, 6, 8, 255):
        A.append((16, 0x01E0, dt, "nomap"))
        A.append((16, 0x01FF, dt, "nomap"))
    A.append((16, 0x0100, 6, "nomap"))
    for v in (0x01FE30, 0xFFFE1D, 0xFDFE00, 0x81FE48, 0x01FE49, 0x010061, 0x01FF8B, 0x014068,
              0x01C180, 0x010000, 0x012120, 0x01313C, 0xC10000, 0xC10100, 0xC10A00, 0xC10A01,
              0xC13055, 0xC51234, 0xC7FFFF, 0xC90000, 0xC30000, 0xC14000):
        A.append((24, v, 0, "nomap"))
    for v in (0x000400, 0x000401, 0x000409, 0x000C0B, 0x001000, 0x0013FF, 0x000000, 0x007C00,
              0x808400, 0x848000, 0xC00C10, 0xC08000, 0xFE0000 & ~0x010000 | 0x008000):
        A.append((24, v, 0, "nomap"))
    for mk in (1, 3, 4, 31, "empty", "noentry"):
        A.append((24, 0x008002, 0, mk))
        A.append((24, 0x7E8C0F, 0, mk))
    A.append((8, 0x55, 0, "nomap"))
    A.append((25, 0x1FFFFFF, 0, "nomap"))
    A.append((20, 0, 6, "nomap"))
    A.append((17, 0x10000, 0, "nomap"))
    # the public address / instance codec called directly on a frame (a bus monitor asking for the destination of what it sees),
    # event frames included - placed LAST so that the baselines of the decodes above are taken before any of these calls
    for bits, v in ((24, 0x000400), (24, 0x01FE30), (16, 0x0100), (24, 0x808400), (24, 0x81FE48), (24, 0x008002), (16, 0xFF20), (8, 0x55)):
        A.append((bits, v, "ADDR", "nomap"))
    return A


def _run_order(res, mode, part, parts):
    from dali.command import from_frame, Command
    from dali.frame import ForwardFrame as FF
    A = order_alphabet()
    maps = {mk: make_map(mk) for mk in set(a[3] for a in A)}
    base = {}

    def dec(a):
        bits, v, dt, mk = a
        dmap, _ = maps[mk]
        if dt == "ADDR":
            from dali import address as AD_
            try:
                x, y = AD_.from_frame(FF(bits, v)), AD_.instance_from_frame(FF(bits, v))
                return ("ADDR", type(x).__name__, str(x), type(y).__name__, str(y))
            except Exception as e:
                return ("EXC", repr(e))
        try:
            r = from_frame(FF(bits, v), devicetype=dt, dev_inst_map=dmap)
        except Exception as e:          # judged by the enumeration shards; here only order matters
            return ("EXC", repr(e))
        try:
            txt = str(r)
        except Exception as e:
            txt = "EXC:" + repr(e)
        return (type(r).__module__, type(r).__name__, len(r.frame), r.frame.as_integer, txt,
                repr(sorted((k, str(x)) for k, x in vars(r).items() if k != "_data")))

    for a in A:
        base[a] = dec(a)
        res["distinct"].add(("order-base", base[a][1]))
    if mode == "pairs":
        B, seqs = A, itertools.product(range(len(A)), repeat=2)
    elif mode == "triples_small":
        B = A[::3]
        seqs = itertools.product(range(len(B)), repeat=3)
    else:
        B, seqs = A, itertools.product(range(len(A)), repeat=3)
    # constructions interleaved: building commands by hand between decodes must not matter
    from dali.gear import general as gg, led
    from dali.device import general as dg, pushbutton
    from dali import address as AD

    def constructions():
        gg.DAPC(AD.GearShort(5), 1)
        led.QueryFastFadeTime(AD.GearBroadcast())
        gg.Initialise(address=3)
        dg.SetEventFilter(AD.DeviceShort(1), AD.InstanceNumber(2))
        dg.DTR2DTR1(1, 2)
        pushbutton.ShortPress(short_address=1, instance_number=2)
    for n, idx in enumerate(seqs):
        if n % parts != part:
            continue
        if n % 7 == 0:
            constructions()
        for i in idx[:-1]:
            dec(B[i])
        z = B[idx[-1]]
        got = dec(z)
        res["evaluations"] += 1
        res["transitions"] += len(idx)
        if got != base[z]:
            add_violation(res, "C01:order-dependence",
                          f"decode of {z} after {[B[i] for i in idx[:-1]]} differs from baseline: {got} vs {base[z]}",
                          {"order": [list(B[i]) for i in idx]})
    for mk, (m, _) in maps.items():
        if m is not None:
            ref, _ = make_map(mk)
            if m.mapping != ref.mapping:
                add_violation(res, "C01:map-mutated", f"decoding mutated the instance map {mk}", {"order": [], "map": mk})
    sample(res, {"order_mode": mode, "alphabet_size": len(B), "example": [list(B[0]), list(B[-1])]})


def _run_first(res):
    """Every operation of the alphabet as the FIRST thing a process does with the library (fresh forked child each), followed
    by all decodes: they must equal the decodes of a child that starts with them.  (The pair / triple shards take their
    baselines first, so whatever the library remembers from a first call is already in place there.)"""
    from dali.command import from_frame
    from dali.frame import ForwardFrame as FF
    from dalimc.core.preempt import _in_fork
    A = order_alphabet()
    decs = [a for a in A if a[2] != "ADDR"]

    def dec(a, maps):
        bits, v, dt, mk = a
        if dt == "ADDR":
            from dali import address as AD_
            x, y = AD_.from_frame(FF(bits, v)), AD_.instance_from_frame(FF(bits, v))
            return ("ADDR", type(x).__name__, str(x), type(y).__name__, str(y))
        try:
            r = from_frame(FF(bits, v), devicetype=dt, dev_inst_map=maps[mk][0])
            return (type(r).__module__, type(r).__name__, len(r.frame), r.frame.as_integer, str(r))
        except Exception as e:
            return ("EXC", repr(e))

    def child(first):
        maps = {mk: make_map(mk) for mk in set(a[3] for a in A)}
        if first is not None:
            dec(first, maps)
        return [dec(a, maps) for a in decs]
    want = _in_fork(lambda: child(None))
    if not want:
        raise RuntimeError("HARNESS: reference child produced nothing")
    firsts = [a for a in A if a[2] == "ADDR"] + [a for a in A if a[0] == 24 and a[2] != "ADDR" and not (a[1] >> 16) & 1][:8] + A[-12:-8] + A[:3]
    for first in firsts:
        got = _in_fork(lambda: child(first))
        res["evaluations"] += 1
        res["transitions"] += len(decs)
        if got != want:
            bad = [(a, g, w) for a, g, w in zip(decs, got or [], want or []) if g != w][:3]
            add_violation(res, "C01:order-dependence:first-call", f"a process whose first library call is {first}: later decodes differ from a process without that call: "
                          f"{bad if bad else (got, want)}"[:900], {"order": [], "first": list(map(str, first))})
        res["distinct"].add(("first", str(first[2])))
    sample(res, {"order_mode": "every address-codec call / event decode as the first call of a fresh process", "firsts": len(firsts)})


def _run_mapmut(res):
    """Decodes interleaved with IN-PLACE changes of one shared map object: every sequence of <= 5 operations over
    {decode F1, decode F2, decode a 16-bit frame, add_type(k1, 1), add_type(k1, 4), add_type(k2, 3), clear()}; the last
    decode must equal a decode with a FRESH map object of the same content (the result depends on the map's content at
    the time of the call, not on the object's identity or on what was decoded before)."""
    from dali.command import from_frame
    from dali.frame import ForwardFrame as FF
    from dali.device.helpers import DeviceInstanceTypeMapper
    F1 = (24, (5 << 17) | (1 << 15) | (2 << 10) | 0x00B)       # device 5 / instance 2, data 11
    F2 = (24, (9 << 17) | (1 << 15) | (7 << 10) | 0x2AA)       # device 9 / instance 7
    G = (16, 0x03A0)
    OPS = [("dec", F1), ("dec", F2), ("dec", G), ("add", (5, 2), 1), ("add", (5, 2), 4), ("add", (9, 7), 3), ("clear",)]

    def obs(r):
        try:
            txt = str(r)
        except Exception as e:
            txt = "EXC:" + repr(e)
        return (type(r).__module__, type(r).__name__, r.frame.as_integer, txt)
    for L in range(2, 6):
        for seq in itertools.product(range(len(OPS)), repeat=L):
            if OPS[seq[-1]][0] != "dec" or not any(OPS[i][0] != "dec" for i in seq):
                continue
            m, content = DeviceInstanceTypeMapper(), {}
            got = None
            for i in seq:
                op = OPS[i]
                if op[0] == "dec":
                    got = obs(from_frame(FF(*op[1]), dev_inst_map=m))
                elif op[0] == "add":
                    m.add_type(short_address=op[1][0], instance_number=op[1][1], instance_type=op[2])
                    content[op[1]] = op[2]
                else:
                    m.clear()
                    content = {}
            fresh = DeviceInstanceTypeMapper()
            for (a, i_), t in content.items():
                fresh.add_type(short_address=a, instance_number=i_, instance_type=t)
            exp = obs(from_frame(FF(*OPS[seq[-1]][1]), dev_inst_map=fresh))
            res["evaluations"] += 1
            res["transitions"] += L
            if got != exp:
                add_violation(res, "C01:order-dependence:map-changed-in-place",
                              f"after {[OPS[i] for i in seq[:-1]]} on ONE map object, decode {OPS[seq[-1]][1][1]:#x} -> {got}; "
                              f"with a fresh map of the same content {content}: {exp}", {"order": [], "mapmut": list(seq)})
            res["distinct"].add(("mapmut", got[1]))
    sample(res, {"order_mode": "map changed in place", "operations": len(OPS), "max_length": 5})


def run_shard(shard):
    from dali.command import from_frame, Command
    from dali.frame import ForwardFrame as FF
    res = new_result()
    before = registries()
    kind = shard[0]
    if kind == "g16":
        _, dt, lo, hi = shard
        for v in range(lo, hi):
            d = decode_check(res, 16, v, dt, None, "nomap", "nomap", from_frame, FF, Command)
            if d:
                res["distinct"].add((d[0], d[1], dt))
            if v % 97 == 0:
                str_check(res, d, 16, v, dt, None, "nomap", from_frame, FF)
        res["evaluations"] += hi - lo
        sample(res, {"bits": 16, "devicetype": dt, "range": [lo, hi]})
    elif kind in ("d24_upper", "d24_lower", "d24_full"):
        if kind == "d24_upper":
            gen = ((u << 8) | op for op in shard[1] for u in range(65536))
        elif kind == "d24_lower":
            gen = ((a << 16) | l for a in shard[1] for l in range(65536))
        else:
            gen = ((shard[1] << 16) | l for l in range(65536))
        n = 0
        for v in gen:
            d = decode_check(res, 24, v, 0, None, "nomap", "nomap", from_frame, FF, Command)
            if d:
                res["distinct"].add((d[0], d[1]))
            if n % 61 == 0:
                str_check(res, d, 24, v, 0, None, "nomap", from_frame, FF)
            n += 1
        res["evaluations"] += n
        sample(res, {"bits": 24, "shard": list(shard)[:2]})
    elif kind in ("evq", "evt"):
        mk = shard[1]
        dmap, maptype = make_map(mk)
        snap = None if dmap is None else dict(dmap.mapping)
        if kind == "evq":
            shorts = [0, 1, 62, 63]
            inums = [0, 1, 30, 31] if mk != "noentry" else [0, 1, 30, 31]
        else:
            shorts = range(shard[2], shard[3])
            inums = [i for i in range(32) if not (mk == "noentry" and i == 7)]
        n = 0
        for s in shorts:
            for i in inums:
                basev = (s << 17) | (1 << 15) | (i << 10)
                for data in range(1024):
                    v = basev | data
                    d = decode_check(res, 24, v, 0, dmap, maptype, mk, from_frame, FF, Command)
                    if d:
                        res["distinct"].add((d[0], d[1], str(mk)))
                    if n % 53 == 0:
                        str_check(res, d, 24, v, 0, dmap, mk, from_frame, FF)
                    n += 1
        res["evaluations"] += n
        if dmap is not None and dmap.mapping != snap:
            add_violation(res, "C01:map-mutated", f"decoding mutated the instance map {mk}", {"bits": 24, "value": 0x8000, "dt": 0, "map": mk})
        sample(res, {"bits": 24, "scheme": "device/instance", "map": mk, "frames": n})
    elif kind == "evs":
        # every event scheme (not only device/instance) decoded WITH a map: "with or without an instance-type map"
        _, mk, t0, t1, depth = shard
        dmap, maptype = make_map(mk)
        snap = dict(dmap.mapping)
        if depth == "quick":
            tops = [t for t in (0, 1, 5, 62, 63, 64, 65, 95, 96, 97, 126, 127) if t0 <= t < t1]
            datas = list(range(16)) + [16, 0x155, 512, 1023]
        else:
            tops = range(t0, t1)
            datas = range(1024)
        n = 0
        for top in tops:
            for low6 in range(64):
                basev = (top << 17) | (low6 << 10)          # bit 16 clear: an event message
                for data in datas:
                    v = basev | data
                    mt = maptype
                    if mk == "noentry" and top < 64 and low6 == 0x20 | 7:
                        mt = 1                                  # the one instance the "noentry" map does know
                    d = decode_check(res, 24, v, 0, dmap, mt, mk, from_frame, FF, Command)
                    if d:
                        res["distinct"].add((d[0], d[1], "evs", str(mk)))
                    if n % 53 == 0:
                        str_check(res, d, 24, v, 0, dmap, mk, from_frame, FF)
                    n += 1
        res["evaluations"] += n
        if dmap.mapping != snap:
            add_violation(res, "C01:map-mutated", f"decoding mutated the instance map {mk}", {"bits": 24, "value": 0, "dt": 0, "map": mk})
        sample(res, {"bits": 24, "scheme": "all five event schemes", "map": mk, "frames": n})
    elif kind == "framesub":
        # "any forward frame": also an instance of an application subclass of ForwardFrame - a trivial one and one whose
        # constructor takes more than (bits, data), e.g. a sniffer's frame with a timestamp - known and unknown frames, any length
        class PlainSub(FF):
            pass

        class Stamped(FF):
            def __init__(self, bits, data, timestamp):
                super().__init__(bits, data)
                self.timestamp = timestamp
        n = 0
        probes = [(16, v) for v in (0x0000, 0x01FE, 0x0100, 0x01E0, 0x01FF, 0xA100, 0xA300, 0xC106, 0xCB00, 0xA000, 0xFD01, 0xBB00, 0xB9FF)] + \
                 [(24, v) for v in (0x01FE30, 0xC10000, 0xC10301, 0x07FE7F, 0x000400, 0x008002, 0xC30000, 0xFDFE00, 0x7E8C0F)] + \
                 [(8, 0x55), (25, 0x1FFFFFF), (17, 0x10000), (1, 1), (64, 1 << 63)]
        for bits, v in probes:
            for dt in (0, 6, 8):
                want = None
                for label, mkf in (("ForwardFrame", lambda: FF(bits, v)), ("trivial subclass", lambda: PlainSub(bits, v)),
                                   ("subclass with its own constructor", lambda: Stamped(bits, v, 12.5))):
                    case = {"bits": bits, "value": v, "dt": dt, "map": "nomap", "framesub": label}
                    n += 1
                    try:
                        r = from_frame(mkf(), devicetype=dt)
                        got = (type(r).__module__, type(r).__name__, len(r.frame), r.frame.as_integer, str(r))
                    except Exception as e:
                        add_violation(res, "C01:frame-subclass:raises", f"from_frame(<{label}>({bits},{v:#x}), dt={dt}) raised {e!r}", case)
                        continue
                    if want is None:
                        want = got
                    elif got != want:
                        add_violation(res, "C01:frame-subclass:differs", f"from_frame(<{label}>({bits},{v:#x}), dt={dt}) -> {got}, with a plain ForwardFrame {want}", case)
                    if got[2:4] != (bits, v):
                        add_violation(res, "C01:frame-not-identical:sub", f"<{label}>({bits},{v:#x}): decoded object carries {got[2:4]}", case)
                res["distinct"].add(("framesub", bits))
        res["evaluations"] += n
        sample(res, {"frame_subclass_decodes": n})
    elif kind == "len":
        n = 0
        for bits in range(1, 65):
            if bits in (16, 24):
                continue
            alt = int("10" * 33, 2) & ((1 << bits) - 1)
            for v in sorted({0, 1, (1 << bits) - 1, alt, 1 << (bits - 1), alt >> 1}):
                for dt in (0, 6, 255):
                    for mk in ("nomap", 1):
                        dmap, mt = make_map(mk) if mk != "nomap" else (None, "nomap")
                        d = decode_check(res, bits, v, dt, dmap, mt, mk, from_frame, FF, Command)
                        str_check(res, d, bits, v, dt, dmap, mk, from_frame, FF)
                        if d:
                            res["distinct"].add((d[0], d[1], bits))
                        n += 1
        res["evaluations"] += n
        sample(res, {"lengths": "1..64 except 16,24", "decodes": n})
    elif kind == "order" and shard[1] == "threads":
        # two threads decoding at once from a never-used library: thread A suspended after each library line of its decode in
        # turn (fresh forked child per point), thread B decodes a set of frames meanwhile; both must match sequential decoding
        from dalimc.core.preempt import one_preemption, _in_fork
        from dalimc.core import repo
        probes = [(16, 0x0300, 0), (16, 0x01E0, 6), (16, 0xC106, 0), (16, 0xA5FF, 0), (16, 0xFE80, 0), (24, 0x01FE30, 0), (24, 0xC10000, 0),
                  (24, 0x010061, 0), (24, 0x000401, 0), (24, 0x0A8401, 0), (8, 0x55, 0), (16, 0x01FF, 8)]

        def dec(bits, v, dt):
            r = from_frame(FF(bits, v), devicetype=dt)
            return (type(r).__module__, type(r).__name__, r.frame.as_integer, str(r))
        want = _in_fork(lambda: [dec(*p) for p in probes])
        for first in ((16, 0x01E0, 6), (24, 0x010061, 0), (24, 0x000401, 0)):
            wa = _in_fork(lambda: dec(*first))
            for r in one_preemption(lambda: dec(*first), lambda: [dec(*p) for p in probes], repo.REPO):
                res["evaluations"] += 1
                res["transitions"] += 1
                case = {"order": [], "threads": list(first), "k": r["k"]}
                if r["a"] != ("v", wa):
                    add_violation(res, "C01:threads:first-decoder-wrong", f"thread A decoding {first} (suspended after its line {r['k']}): {r['a']}, sequentially {wa}", case)
                if r["preempted"] and r["b"] != ("v", want):
                    add_violation(res, "C01:threads:second-decoder-wrong", f"thread A decoding {first} suspended after its line {r['k']}; thread B decoded "
                                  f"{r['b']}, sequentially {want}"[:900], case)
            res["distinct"].add(("threads", first))
        sample(res, {"order_mode": "two threads, one preemption at every library line of the first decode"})
    elif kind == "order" and shard[1] == "mapmut":
        _run_mapmut(res)
    elif kind == "order" and shard[1] == "first":
        _run_first(res)
    elif kind == "order":
        _run_order(res, shard[1], shard[2], shard[3])
    if registries() != before:
        add_violation(res, "C01:registry-mutated", f"class-level registries changed during shard {shard}",
                      {"shard": list(shard)})
    return res


def replay(case):
    from dali.command import from_frame, Command
    from dali.frame import ForwardFrame as FF
    res = new_result()
    if "threads" in case:
        return run_shard(("order", "threads", 0, 1))["violations"]
    if "mapmut" in case:
        return run_shard(("order", "mapmut", 0, 1))["violations"]
    if "framesub" in case:
        return run_shard(("framesub",))["violations"]
    if "first" in case:
        return run_shard(("order", "first", 0, 1))["violations"]
    if "order" in case:
        if not case["order"]:
            return run_shard(("order", "pairs", 0, 1))["violations"]
        seq = [tuple(x) for x in case["order"]]
        maps = {mk: make_map(mk) for mk in set(a[3] for a in seq)}

        def dec(a):
            bits, v, dt, mk = a
            if dt == "ADDR":
                from dali import address as AD_
                x, y = AD_.from_frame(FF(bits, v)), AD_.instance_from_frame(FF(bits, v))
                return ("ADDR", type(x).__name__, str(x), type(y).__name__, str(y))
            try:
                r = from_frame(FF(bits, v), devicetype=dt, dev_inst_map=maps[mk][0])
                return (type(r).__name__, len(r.frame), r.frame.as_integer, str(r))
            except Exception as e:
                return ("EXC", repr(e))
        base = dec(seq[-1])          # NB: baseline in this process image
        for a in seq[:-1]:
            dec(a)
        got = dec(seq[-1])
        print("   baseline", base, "after prefix", got)
        if got != base:
            add_violation(res, "C01:order-dependence", "differs", case)
        return res["violations"]
    if "shard" in case:
        return run_shard(tuple(case["shard"]))["violations"]
    mk = case["map"]
    dmap, maptype = make_map(mk)
    v = case["value"]
    if mk == "noentry" and case["bits"] == 24 and not v >> 23 and (v >> 10) & 0x7F == 0x20 | 7 and not (v >> 16) & 1:
        maptype = 1
    d = decode_check(res, case["bits"], case["value"], case["dt"], dmap, maptype, mk, from_frame, FF, Command)
    print("   decoded:", d)
    str_check(res, d, case["bits"], case["value"], case["dt"], dmap, mk, from_frame, FF)
    return res["violations"]
