"""C18 - bytes exchanged with each gateway follow that gateway's wire format.

E1: exhaustive enumeration over command classes / frames / sequence-number histories / report
codes; the bytes each driver hands to its transport are captured at the seam (fake os.write,
fake serial transport, fake socket, construct()) and compared with reference encoders
transcribed from the documented formats (dalimc.spec.gateway_formats).
"""
import itertools

from dalimc.core.runner import new_result, add_violation, observe, sample
from dalimc.core.explorer import Chooser
from dalimc.spec import gateway_formats as GF
from dalimc.spec import ref_codec as R
from dalimc.aio.engine import execute, Caller
from . import _cmdspace as S

ID = "C18"
OPTIMISED_STRIDE = {"quick": 8, "thorough": 8}      # every k-th shard once more in an interpreter started with -O
TRACE_STRIDE = {"quick": 3, "thorough": 3}      # every k-th shard once more with logging enabled down to TRACE
BYTEORDER_STRIDE = {"quick": 6, "thorough": 6}      # every k-th shard once more with sys.byteorder reporting a big-endian host
LEVEL = "exploration"
ENGINE = "E1"
TECHNIQUE = "exhaustive enumeration of commands, frames, sequence-number histories and report codes through the real drivers with bytes captured at the transport seam vs reference encoders"
RULE = ("encode: every command class (one destination each) and raw 16-bit frames x 9 drivers {HID Tridonic, HID hasseb, LUBA, SCI, daliserver, "
        "ATX hat, legacy Tridonic, legacy hasseb, UniPi}; sequence numbers over 700 consecutive sends from several start values; frame lengths "
        "1..64 for refusal (exception and no bytes written); decode: every report/status code 0..255 per driver; "
        "distinct = distinct (driver, aspect, outcome) observations")
ASSUMPTIONS = [
    "reference formats come from the struct templates / constants / comments in the driver sources; vendor PDFs are not available offline (internal consistency + stability, not conformance to the vendor document)",
    "LUBA priority rule as commented in send_dali_command (standard commands without answer and DAPC: 2, others: 5)",
    "SCI: the driver transmits 16-bit frames in (hi, mid) but reads observed 16-bit frames from (mid, lo): recorded as an observation",
    "UniPi sets the 'twice' option AND writes the registers twice; ATX has no send-twice prefix for 24-bit frames: observations (undocumented gateway behaviour)",
]
CHAIN_STRIDE = {'quick': 6, 'thorough': 10}      # every k-th shard is re-run in chains inside one process (non-initial process states)
BOUNDS = {"quick": "all classes; 4096 raw frames per async driver (all 65536 for the sync ones); 5 start sequence numbers x 700 sends; lengths 1..64; all 256 codes",
          "thorough": "all 65536 raw frames per driver; all 255 start sequence numbers x 700 sends"}

CARRY = {"tridonic": {16, 24}, "hasseb": {16}, "luba": {16, 24}, "sci": {8, 16, 24}, "daliserver": {16}, "atx": {8, 16, 24, 25},
         "tridonic-legacy": {16}, "hasseb-legacy": {16}, "unipi": {16, 24}}


def class_commands():
    """One library command object per table row (first destination / mid parameter)."""
    out = []
    for tab, r in S.all_rows():
        desc = next(iter(S.row_descriptors(tab, r, "quick")))
        out.append((desc, S.construct(desc)))
    from dali.gear.general import DAPC
    from dali.address import GearShort
    out.append((("gear.general", "DAPC", (("short", 5), 200)), DAPC(GearShort(5), 200)))
    return out


def raw_cmd(bits, value):
    from dali.command import Command
    from dali.frame import ForwardFrame
    return Command(ForwardFrame(bits, value))


def run_async(driver, cmds, start_seq=1, exc_on=True, answers=None, idle=False):
    """Send cmds sequentially through an async driver; returns (raw writes, results)."""
    results = []

    def make():
        async def co(w):
            for c in cmds:
                try:
                    n0 = len(w.raw_writes)
                    r = await w.driver._send_raw(c) if False else await w.driver.send(c)
                    results.append(("ok", n0, len(w.raw_writes), r))
                except Exception as e:
                    results.append(("raised", type(e).__name__, len(w.raw_writes) - n0))
            return len(results)
        callers = [Caller("c", co)]
        bus = (lambda b, v, i: ("none",)) if answers is None else (lambda b, v, i: answers.get((b, v), ("none",)))
        if driver in ("tridonic", "hasseb"):
            from dalimc.aio.hidworld import HidWorld
            w = HidWorld(driver, bus, callers, start_seq=start_seq, exceptions_on_send=exc_on)
            w.idle_reports = idle
        else:
            from dalimc.aio.serialworld import SerialWorld
            w = SerialWorld(driver, bus, callers)
        w.timer_budget = 10 ** 6
        return w
    from dalimc.aio import engine
    old = engine.HORIZON
    engine.HORIZON = 10 ** 7
    try:
        w, obs = execute(make, Chooser())
    finally:
        engine.HORIZON = old
    return w, results


def check_async_decode(res, driver, idle=False):
    """Gateway -> host through the whole driver: the packets by which the gateway model reports 'backward frame v', 'no
    answer' and (HID) 'framing error' decode to exactly that, for every value on a query of each answer type."""
    from dali.gear.general import QueryActualLevel, QueryStatus, QueryLampFailure
    from dali.address import GearShort
    cmds, answers, want = [], {}, []
    outs = [("value", v) for v in (0, 1, 2, 0x64, 0x7F, 0x80, 0xFE, 0xFF)] + [("none",)] + ([("err",)] if driver in ("tridonic", "hasseb") else [])
    for i, out in enumerate(outs):
        for j, cls in enumerate((QueryActualLevel, QueryStatus, QueryLampFailure)):
            c = cls(GearShort((3 * i + j) % 64))
            cmds.append(c)
            answers[(16, c.frame.as_integer)] = out
            want.append(out)
    w, results = run_async(driver, cmds, 1, True, answers, idle)
    for c, r, out in zip(cmds, results, want):
        case = {"driver": driver, "what": "classes", "bits": 16, "value": c.frame.as_integer, "twice": False, "start_seq": 1, "cls": type(c).__module__ + "." + type(c).__name__}
        res["evaluations"] += 1
        if r[0] != "ok":
            add_violation(res, f"C18:{driver}:decode-raised", f"{driver}: gateway reported {out} for {c}: send raised {r[1]}", case)
            continue
        resp = r[3]
        raw = getattr(resp, "raw_value", "missing")
        got = ("none",) if raw is None else ("missing",) if raw == "missing" else (("err",) if raw.error else ("value", raw.as_integer))
        if type(resp) is not c.response or got != out:
            add_violation(res, f"C18:{driver}:decode", f"{driver}: the gateway's report of {out} for {type(c).__name__} came out of send() as {type(resp).__name__} {got}", case)
        res["distinct"].add((driver, "decode", out[0]))


def expected_async(driver, cmd, seq=None):
    bits, value, twice = len(cmd.frame), cmd.frame.as_integer, bool(cmd.sendtwice)
    if driver == "tridonic":
        return [GF.tridonic_hid(bits, value, twice, seq)]
    if driver == "hasseb":
        return GF.hasseb_hid(bits, value, twice)
    if driver == "luba":
        from dali.gear import general as gg
        pr = GF.luba_priority(isinstance(cmd, gg._StandardCommand), isinstance(cmd, gg.DAPC), cmd.response is not None, twice)
        return [GF.luba(bits, value, twice, pr)]
    return [GF.sci(bits, value, twice)]


def check_async_batch(res, driver, cmds, start_seq, what, exc_on=True):
    w, results = run_async(driver, cmds, start_seq, exc_on)
    writes = w.raw_writes
    # strip handshake writes
    if driver == "tridonic":
        writes = [x for x in writes if x[0] == 0x12]
    elif driver == "luba":
        writes = [x for x in writes if len(x) > 1 and x[1] == 0x32]
    elif driver == "sci":
        writes = [x for x in writes if not (x[0] & 0x40)]
    pos = 0
    seq = start_seq
    prev_seq = None
    for c, r in zip(cmds, results):
        bits = len(c.frame)
        case = {"driver": driver, "what": what, "bits": bits, "value": c.frame.as_integer, "twice": bool(c.sendtwice), "start_seq": start_seq,
                "cls": type(c).__module__ + "." + type(c).__name__}
        units = [c]
        if c.devicetype:
            from dali.gear.general import EnableDeviceType
            units = [EnableDeviceType(c.devicetype), c]
        if r[0] == "raised":
            if r[1] not in ("UnsupportedFrameTypeError", "ValueError", "TypeError", "NotImplementedError"):
                add_violation(res, f"C18:{driver}:not-refused-properly:{r[1]}", f"{driver} send of a {bits}-bit frame (exceptions_on_send={exc_on}) ended with {r[1]}, "
                              f"not with a refusal", case)
            if bits in CARRY[driver]:
                add_violation(res, f"C18:{driver}:refused-supported-length", f"{driver} send of a {bits}-bit frame raised {r[1]}", case)
            elif r[2] != 0:
                add_violation(res, f"C18:{driver}:bytes-written-on-refusal", f"{driver} refused a {bits}-bit frame but wrote {r[2]} packets", case)
            res["distinct"].add((driver, "refused", r[1]))
            continue
        if bits not in CARRY[driver]:
            add_violation(res, f"C18:{driver}:unsupported-length-accepted",
                          f"{driver} accepted a {bits}-bit frame (value {c.frame.as_integer:#x}) and wrote {[x.hex() for x in writes[pos:pos + 2]]}", case)
            pos += r[2] - r[1]
            if driver == "tridonic":
                seq = 1 if seq >= 255 else seq + 1
            continue
        for u in units:
            exp = expected_async(driver, u, seq)
            got = writes[pos:pos + len(exp)]
            pos += len(exp)
            if got != exp:
                add_violation(res, f"C18:{driver}:packet", f"{driver} {type(u).__name__} frame {u.frame.as_integer:#x} twice={u.sendtwice}: wrote "
                              f"{[g.hex()[:40] for g in got]}, format says {[e.hex()[:40] for e in exp]}", case)
            if driver == "tridonic":
                s = got[0][1] if got else None
                if s is not None and (not 1 <= s <= 255 or s == prev_seq):
                    add_violation(res, "C18:tridonic:sequence-number", f"sequence number {s} after {prev_seq}", case)
                prev_seq = s
                seq = 1 if seq >= 255 else seq + 1
        res["distinct"].add((driver, "packet", bits, bool(c.sendtwice)))
    if pos != len(writes):
        add_violation(res, f"C18:{driver}:extra-packets", f"{driver}: {len(writes) - pos} unexplained packets written ({what})",
                      {"driver": driver, "what": what, "bits": 0, "value": 0, "twice": False, "start_seq": start_seq, "cls": ""})
    res["evaluations"] += len(cmds)
    res["transitions"] += len(writes)


# ----------------------------------------------------------------------------- sync drivers

def sync_encode(driver, cmd):
    """Returns list of byte strings / tuples written for one command (or raises)."""
    if driver == "daliserver":
        from .c16 import FakeSocket
        import dali.driver.daliserver as DS
        log = []
        script = [bytes([2, 0, 0, 0])] * 2

        class _S:
            @staticmethod
            def create_connection(target):
                return FakeSocket(script, log)
        DS.socket = _S
        DS.DaliServer().send(cmd)
        return log
    if driver == "atx":
        import dali.driver.atxled as AX
        d = AX.DaliHatSerialDriver.__new__(AX.DaliHatSerialDriver)
        return [d.construct(cmd)]
    if driver == "tridonic-legacy":
        import dali.driver.tridonic as TL
        d = TL.TridonicDALIUSBDriver()
        d._next_sn = 7
        return [bytes(d.construct(cmd))]
    if driver == "hasseb-legacy":
        import dali.driver.hasseb as HL
        d = HL.HassebDALIUSBDriver.__new__(HL.HassebDALIUSBDriver)
        d.sn = 6
        return [bytes(d.construct(cmd))]
    if driver == "unipi":
        import dali.driver.unipi as UP
        d = UP.UnipiDALIDriver()
        return [tuple(d.construct(cmd))]
    raise AssertionError(driver)


def sync_expected(driver, cmd):
    bits, value, twice = len(cmd.frame), cmd.frame.as_integer, bool(cmd.sendtwice)
    if driver == "daliserver":
        return [GF.daliserver(bits, value)] * (2 if twice else 1)
    if driver == "atx":
        return [GF.atx(bits, value, twice)]
    if driver == "tridonic-legacy":
        return [GF.tridonic_legacy(bits, value, 7, twice)]
    if driver == "hasseb-legacy":
        return [GF.hasseb_legacy(bits, value, 7, cmd.response is not None, twice)]
    return [GF.unipi(bits, value, twice)]


def check_sync(res, driver, cmd, what):
    bits = len(cmd.frame)
    case = {"driver": driver, "what": what, "bits": bits, "value": cmd.frame.as_integer, "twice": bool(cmd.sendtwice),
            "cls": type(cmd).__module__ + "." + type(cmd).__name__}
    res["evaluations"] += 1
    try:
        got = sync_encode(driver, cmd)
    except Exception as e:
        if bits in CARRY[driver]:
            add_violation(res, f"C18:{driver}:refused-supported-length", f"{driver}: {bits}-bit frame raised {e!r}", case)
        res["distinct"].add((driver, "refused", type(e).__name__))
        return
    if bits not in CARRY[driver]:
        add_violation(res, f"C18:{driver}:unsupported-length-accepted", f"{driver} accepted a {bits}-bit frame and produced {got}", case)
        return
    exp = sync_expected(driver, cmd)
    if got != exp:
        add_violation(res, f"C18:{driver}:packet", f"{driver} {type(cmd).__name__} {cmd.frame.as_integer:#x} twice={cmd.sendtwice}: produced "
                      f"{[g.hex() if isinstance(g, bytes) else g for g in got]}, format says {[e.hex() if isinstance(e, bytes) else e for e in exp]}", case)
    res["distinct"].add((driver, "packet", bits, bool(cmd.sendtwice)))


# ----------------------------------------------------------------------------- shards

ASYNC = ["tridonic", "hasseb", "luba", "sci"]
SYNC = ["daliserver", "atx", "tridonic-legacy", "hasseb-legacy", "unipi"]


def TRACE_SHARDS(tier):
    """Run once more with TRACE logging whatever the stride picks: every driver's command classes (queries with answers) and the decode tables."""
    return [("classes", d) for d in ASYNC] + [("decode",), ("sync", "unipi"), ("sync", "atx")]


def shards(tier):
    out = []
    for d in ASYNC:
        out.append(("classes", d))
        out.append(("lengths", d))
        step = 16 if tier == "quick" else 1
        for lo in range(0, 65536, 8192):
            out.append(("raw16", d, lo, lo + 8192, step))
    for d in SYNC:
        out.append(("sync", d))
    starts = [1, 2, 128, 254, 255] if tier == "quick" else list(range(1, 256))
    for i in range(0, len(starts), 5):
        out.append(("seq", starts[i:i + 5]))
    out.append(("seq-legacy",))
    out.append(("legacy-threads",))
    out.append(("decode",))
    return out


def run_shard(shard):
    res = new_result()
    k = shard[0]
    if k == "classes":
        d = shard[1]
        cmds = [c for desc, c in class_commands()]
        if d == "hasseb":
            cmds = [c for c in cmds if len(c.frame) == 16] + [c for c in cmds if len(c.frame) == 24][:3]
        for i in range(0, len(cmds), 120):
            check_async_batch(res, d, cmds[i:i + 120], 1, "classes")
        check_async_decode(res, d)
        if d == "hasseb":
            check_async_decode(res, d, idle=True)       # ... with "no data available" reports (don't-care data byte) in between
        sample(res, {"driver": d, "classes": len(cmds)})
    elif k == "lengths":
        d = shard[1]
        cmds = []
        for bits in range(1, 65):
            for v in (0, (1 << bits) - 1):
                cmds.append(raw_cmd(bits, v))
        check_async_batch(res, d, cmds, 1, "lengths")
        if d in ("tridonic", "hasseb"):
            # with exceptions switched off (retry after loss) an unsupported length must still be refused at once
            check_async_batch(res, d, [raw_cmd(b, 0) for b in (8, 15, 16, 17, 24, 25, 32)], 1, "lengths-noexc", exc_on=False)
        sample(res, {"driver": d, "lengths": "1..64"})
    elif k == "raw16":
        _, d, lo, hi, step = shard
        vals = list(range(lo, hi, step))
        for i in range(0, len(vals), 150):
            check_async_batch(res, d, [raw_cmd(16, v) for v in vals[i:i + 150]], 3, "raw16")
        sample(res, {"driver": d, "raw16": [lo, hi, step]})
    elif k == "sync":
        d = shard[1]
        for desc, c in class_commands():
            check_sync(res, d, c, "classes")
        for v in range(65536):
            check_sync(res, d, raw_cmd(16, v), "raw16")
        for bits in range(1, 65):
            for v in (0, (1 << bits) - 1):
                check_sync(res, d, raw_cmd(bits, v), "lengths")
        sample(res, {"driver": d, "sync": "classes + all 16-bit frames + lengths 1..64"})
    elif k == "seq":
        from dali.gear.general import Off, SetScene
        from dali.address import GearShort
        for start in shard[1]:
            cmds = [Off(GearShort(i % 64)) if i % 3 else SetScene(GearShort(i % 64), i % 16) for i in range(700)]
            for i in range(0, 700, 350):
                # continue the numbering across the two halves
                s0 = start
                for _ in range(i):
                    s0 = 1 if s0 >= 255 else s0 + 1
                check_async_batch(res, "tridonic", cmds[i:i + 350], s0, f"seq-from-{start}")
        sample(res, {"tridonic_sequence_starts": shard[1], "sends_each": 700})
    elif k == "legacy-threads":
        # legacy asynchronous Tridonic driver: reports are decoded on the listener THREAD while the application thread is in
        # send().  One-preemption exploration: the sender is suspended before every line of its send() in turn (fresh forked
        # child each); the listener then handles whatever the gateway has to report by then (the answer - once the frame has
        # been written); anything not yet reported is reported after send() returns.  The callback gets the outcome exactly once.
        from dalimc.core.preempt import one_preemption
        from dalimc.core import repo
        import dali.driver.tridonic as TL
        from dali.gear.general import QueryActualLevel, Off
        from dali.address import GearShort
        import struct as _st

        class Backend:
            def __init__(self):
                self.written = []

            def write(self, data):
                self.written.append(bytes(data))
        for cmd, outcome in ((QueryActualLevel(GearShort(5)), ("value", 0x42)), (QueryActualLevel(GearShort(5)), ("none",)), (Off(GearShort(5)), ("none",))):
            d = TL.AsyncTridonicDALIUSBDriver.__new__(TL.AsyncTridonicDALIUSBDriver)
            d.backend = Backend()
            d._transactions = {}
            d.debug = False
            calls, delivered = [], []

            def cb(resp, **kw):
                raw = getattr(resp, "raw_value", resp)
                calls.append((type(resp).__name__, None if raw is None else raw.as_integer))

            def deliver():
                if d.backend.written and not delivered:
                    delivered.append(1)
                    sn = d.backend.written[0][1]
                    rep = bytearray(16)
                    rep[0] = 0x12
                    rep[1] = 0x72 if outcome[0] == "value" else 0x71
                    rep[5] = outcome[1] if outcome[0] == "value" else 0
                    rep[8] = sn
                    d.receive(bytes(rep))
                return list(calls)
            want = [(cmd.response.__name__, outcome[1] if outcome[0] == "value" else None)] if cmd.response else [("NoneType", None)]
            points = 0
            for r in one_preemption(lambda: (d.send(cmd, callback=cb), deliver())[1], deliver, repo.REPO + "/dali/driver/tridonic.py", max_points=80):
                points += 1
                res["evaluations"] += 1
                res["transitions"] += 1
                got = r["a"][1] if r["a"][0] == "v" else r["a"]
                if got != want:
                    add_violation(res, "C18:tridonic-legacy:report-lost-between-threads", f"async legacy Tridonic, {type(cmd).__name__}, gateway reports {outcome}: sender "
                                  f"suspended before its line {r['k']} while the listener thread handled the report: callback calls {got}, expected {want}",
                                  {"driver": "tridonic-legacy", "what": "legacy-threads", "bits": 16, "value": cmd.frame.as_integer, "twice": False, "cls": type(cmd).__name__})
                    break
            if points < 5:
                raise RuntimeError(f"HARNESS: only {points} preemption points in AsyncTridonicDALIUSBDriver.send")
            res["distinct"].add(("legacy-threads", type(cmd).__name__, outcome[0]))
        sample(res, {"legacy_async_tridonic_thread_exploration": True})
    elif k == "seq-legacy":
        import dali.driver.tridonic as TL
        import dali.driver.hasseb as HL
        import dali.driver.unipi as UP
        for name, mk, get in (("tridonic-legacy", lambda: TL.TridonicDALIUSBDriver(), lambda d: d._get_sn()),
                              ("unipi", lambda: UP.UnipiDALIDriver(), None)):
            if get is None:
                continue
            for start in (1, 2, 200, 254, 255):
                d = mk()
                d._next_sn = start
                seqs = [get(d) for _ in range(700)]
                res["evaluations"] += 700
                bad = [(i, a, b) for i, (a, b) in enumerate(zip(seqs, seqs[1:])) if a == b or not 1 <= b <= 255]
                if bad or not 1 <= seqs[0] <= 255:
                    add_violation(res, f"C18:{name}:sequence-number", f"{name}: sequence numbers from {start}: ...{seqs[max(0, bad[0][0] - 2):bad[0][0] + 3] if bad else seqs[:3]} (immediate repetition or out of 1..255)",
                                  {"driver": name, "what": "seq", "start_seq": start, "bits": 16, "value": 0, "twice": False, "cls": ""})
                res["distinct"].add((name, "seq", bool(bad)))
        d = HL.HassebDALIUSBDriver.__new__(HL.HassebDALIUSBDriver)
        from dali.gear.general import Off
        from dali.address import GearShort
        for start in (0, 1, 253, 254, 255):
            d.sn = start
            seqs = [d.construct(Off(GearShort(1)))[2] for _ in range(700)]
            bad = [(i, a, b) for i, (a, b) in enumerate(zip(seqs, seqs[1:])) if a == b or not 1 <= b <= 255]
            res["evaluations"] += 700
            if bad:
                add_violation(res, "C18:hasseb-legacy:sequence-number", f"hasseb-legacy sequence numbers from {start}: {seqs[bad[0][0] - 1:bad[0][0] + 3]}",
                              {"driver": "hasseb-legacy", "what": "seq", "start_seq": start, "bits": 16, "value": 0, "twice": False, "cls": ""})
            res["distinct"].add(("hasseb-legacy", "seq", bool(bad)))
        # every packet kind the legacy hasseb driver writes shares ONE sequence counter: commands interleaved with the
        # sniffer configuration packets, all operation sequences of length <= 6 over {command, enableSniffing, disableSniffing}
        class _Dev:
            def __init__(self):
                self.out = []

            def write(self, data):
                self.out.append(bytes(data))
        for start in (0, 1, 253, 254, 255):
            for L in range(1, 7):
                for ops in itertools.product("cED", repeat=L):
                    d = HL.HassebDALIUSBDriver.__new__(HL.HassebDALIUSBDriver)
                    d.sn = start
                    d.device = _Dev()
                    packets = []
                    for o in ops:
                        if o == "c":
                            packets.append(bytes(d.construct(Off(GearShort(1)))))
                        else:
                            n0 = len(d.device.out)
                            (d.enableSniffing if o == "E" else d.disableSniffing)()
                            packets += d.device.out[n0:]
                    sns = [p[2] for p in packets]
                    res["evaluations"] += 1
                    bad = [i for i, (a, b) in enumerate(zip(sns, sns[1:])) if a == b] + [i for i, b in enumerate(sns) if not 1 <= b <= 255]
                    cfg = [p[1] for p in packets]
                    wrong_cfg = [i for i, (o, p) in enumerate(zip(ops, packets)) if o != "c" and (len(p) != 10 or p[0] != 0xAA or p[3] != (1 if o == "E" else 0))]
                    if bad or wrong_cfg:
                        add_violation(res, "C18:hasseb-legacy:sequence-number", f"hasseb-legacy from sn={start}, operations {''.join(ops)} "
                                      f"(c = command, E/D = enable/disable sniffing): sequence numbers {sns}, packet types {cfg}",
                                      {"driver": "hasseb-legacy", "what": "seq", "start_seq": start, "bits": 16, "value": 0, "twice": False, "cls": ""})
                        break
            res["distinct"].add(("hasseb-legacy", "seq-mixed"))
        sample(res, {"legacy_sequence_numbers": "700 from 5 start values; hasseb: all operation sequences <= 6 over command / enable / disable sniffing"})
    elif k == "decode":
        _decode(res)
    return res


def _decode(res):
    from dali.frame import BackwardFrame, ForwardFrame
    from dali.gear.general import QueryActualLevel, Off
    from dali.address import GearShort
    import dali.driver.daliserver as DS
    import dali.driver.tridonic as TL
    import dali.driver.hasseb as HL
    import dali.driver.unipi as UP
    import dali.driver.atxled as AX
    q, nq = QueryActualLevel(GearShort(1)), Off(GearShort(1))
    # daliserver: status 0 none, 1 value, 255 framing error, anything else is a communication error
    ds = DS.DaliServer()
    for status in range(256):
        for rval in (0, 0x42, 0xFF):
            res["evaluations"] += 1
            case = {"driver": "daliserver", "what": "decode", "status": status, "rval": rval, "bits": 16, "value": 0, "twice": False, "cls": ""}
            try:
                r = ds.unpack_response(q, bytes([2, status, rval, 0]))
                got = ("none",) if r.raw_value is None else (("err",) if r.raw_value.error else ("value", r.raw_value.as_integer))
            except Exception as e:
                got = ("exc", type(e).__name__)
            exp = {0: ("none",), 1: ("value", rval), 255: ("err",)}.get(status, ("exc", "CommunicationError"))
            if got != exp or (got[0] != "exc" and type(r) is not q.response):
                add_violation(res, "C18:daliserver:decode", f"status {status} value {rval}: {got}, expected {exp}", case)
            if ds.unpack_response(nq, bytes([2, status, rval, 0])) is not None:
                add_violation(res, "C18:daliserver:decode-nonquery", f"status {status}: non-query got a response", case)
            res["distinct"].add(("daliserver", "decode", exp[0]))
    # legacy Tridonic: direction x type
    tl = TL.TridonicDALIUSBDriver()
    for dr in range(256):
        for ty in range(256):
            res["evaluations"] += 1
            data = bytes([dr, ty, 0, 0, 0x03, 0xA0, 0, 0, 9]) + bytes(55)
            case = {"driver": "tridonic-legacy", "what": "decode", "status": dr, "rval": ty, "bits": 16, "value": 0, "twice": False, "cls": ""}
            try:
                r = tl.extract(data)
            except Exception as e:
                add_violation(res, "C18:tridonic-legacy:decode-raises", f"dr {dr:#x} ty {ty:#x}: {e!r}", case)
                continue
            if dr == 0x11 and ty in (0x73, 0x74):
                ok = isinstance(r, ForwardFrame) and len(r) == 16 and r.as_integer == 0x03A0
            elif dr == 0x12 and ty == 0x71:
                ok = r is TL.DALI_USB_NO_RESPONSE
            elif dr == 0x12 and ty == 0x72:
                ok = isinstance(r, BackwardFrame) and r.as_integer == 0xA0
            else:
                ok = r is None
            if not ok:
                add_violation(res, "C18:tridonic-legacy:decode", f"dr {dr:#x} ty {ty:#x}: {r!r}", case)
    res["distinct"].add(("tridonic-legacy", "decode", "table"))
    # legacy hasseb: report type x status
    hl = HL.HassebDALIUSBDriver.__new__(HL.HassebDALIUSBDriver)
    for t in range(256):
        for st in range(256):
            res["evaluations"] += 1
            data = bytes([0xAA, t, 1, st, 1, 0x42, 0, 0, 0, 0])
            case = {"driver": "hasseb-legacy", "what": "decode", "status": t, "rval": st, "bits": 16, "value": 0, "twice": False, "cls": ""}
            try:
                r = hl.extract(data)
            except Exception as e:
                add_violation(res, "C18:hasseb-legacy:decode-raises", f"type {t} status {st}: {e!r}", case)
                continue
            name = type(r).__name__
            if t == 0:
                ok = name == "HassebDALIUSBNoDataAvailable"
            elif t == 7:
                ok = {1: name == "HassebDALIUSBNoAnswer", 2: name == "BackwardFrame" and r.as_integer == 0x42 and not r.error,
                      3: name == "BackwardFrameError", 4: name == "HassebDALIUSBAnswerTooEarly", 5: name == "HassebDALIUSBSnifferByte",
                      6: name == "HassebDALIUSBSnifferByteError"}.get(st, r is None)
            else:
                ok = r is None
            if not ok:
                add_violation(res, "C18:hasseb-legacy:decode", f"type {t} status {st}: {r!r}", case)
    res["distinct"].add(("hasseb-legacy", "decode", "table"))
    # UniPi registers
    up = UP.UnipiDALIDriver()
    for code in list(range(0, 0x400, 0x40)) + [0x100, 0x200, 0x101, 0x1FF, 0xFFFF]:
        for v in (0, 0x42, 0x03A0, 0xFFFF):
            if code == 0x100 and v > 255:
                continue                # not a well-formed packet: a backward frame has 8 bits
            res["evaluations"] += 1
            r = up.extract((code, v))
            if code == 0x100:
                ok = isinstance(r, BackwardFrame) and r.as_integer == v if v < 256 else True
            elif code == 0x200:
                ok = isinstance(r, ForwardFrame) and r.as_integer == v
            else:
                ok = r is UP.DALI_NO_RESPONSE
            if not ok:
                add_violation(res, "C18:unipi:decode", f"reg {code:#x} value {v:#x}: {r!r}", {"driver": "unipi", "what": "decode", "status": code, "rval": v, "bits": 16, "value": 0, "twice": False, "cls": ""})
    res["distinct"].add(("unipi", "decode", "table"))
    # UniPi, the whole receive path of send(): a register-file model of the gateway (receive counter - a 16-bit Modbus register,
    # so it wraps -, kind register 0x100 = backward frame, data register) behind the driver's backend seam.  Every
    # (starting counter, poll at which the answer becomes visible, answer) combination on every bus.
    from dali.gear.general import QueryStatus, Compare

    class RegFile:
        def __init__(self, drvbus, counter, answer, at_poll):
            self.recv, self.send, self.fe = 1 + 3 * drvbus, 13 + 2 * drvbus, 38 + drvbus // 2
            self.regs = {self.recv: counter, self.recv + 1: 0x200, self.recv + 2: 0x03A0, self.fe: 7}
            self.answer, self.at_poll, self.polls, self.writes = answer, at_poll, 0, []

        def write_regs(self, reg, values, unit=None):
            self.writes.append((reg, tuple(values)))

        def read_regs(self, reg, cnt, unit=None):
            if reg == self.recv and cnt == 3:
                if self.polls == self.at_poll and self.answer is not None:
                    self.regs[self.recv] = (self.regs[self.recv] + 1) & 0xFFFF
                    self.regs[self.recv + 1], self.regs[self.recv + 2] = 0x100, self.answer
                self.polls += 1
            return [self.regs.get(reg + i, 0) for i in range(cnt)]
    old_sleep, old_arm = UP.sleep, UP.RemoteArm
    UP.sleep = lambda s: None
    try:
        for drvbus in range(4):
            for counter in (0, 1, 0x00FF, 0x0100, 0x7FFF, 0x8000, 0xFFFE, 0xFFFF):
                for cmd in (q, QueryStatus(GearShort(2)), nq):
                    for answer in (None, 0x00, 0x7B, 0xFF):
                        for at_poll in ((0, 1, 5) if answer is not None else (0,)):
                            rf = RegFile(drvbus, counter, answer, at_poll)
                            UP.RemoteArm = lambda host, unit=1, rf=rf: rf
                            d = UP.SyncUnipiDALIDriver(bus=drvbus)
                            res["evaluations"] += 1
                            case = {"driver": "unipi", "what": "send-receive", "status": counter, "rval": answer, "bits": 16, "value": cmd.frame.as_integer, "twice": False,
                                    "cls": type(cmd).__name__}
                            try:
                                r = d.send(cmd)
                            except Exception as e:
                                add_violation(res, "C18:unipi:send-raises", f"send({cmd}) raised {e!r}", case)
                                continue
                            if cmd.response is None:
                                ok = r is UP.DALI_NO_RESPONSE or r is None
                            elif answer is None:
                                ok = isinstance(r, cmd.response) and r.raw_value is None
                            else:
                                ok = isinstance(r, cmd.response) and r.raw_value is not None and r.raw_value.as_integer == answer and not r.raw_value.error
                            if not ok:
                                add_violation(res, "C18:unipi:receive", f"bus {drvbus}, receive counter {counter:#06x} -> {(counter + 1) & 0xFFFF:#06x} at poll {at_poll}, registers "
                                              f"(0x0100, {answer if answer is None else hex(answer)}) answering {cmd}: send() returned {r!r} "
                                              f"({None if getattr(r, 'raw_value', None) is None else r.raw_value})", case)
                            if not rf.writes or any(reg != rf.send for reg, v in rf.writes):
                                add_violation(res, "C18:unipi:send-register", f"bus {drvbus}: registers written {rf.writes}", case)
        res["distinct"].add(("unipi", "send-receive", "regfile"))
    finally:
        UP.sleep, UP.RemoteArm = old_sleep, old_arm
    # ATX lines
    ax = AX.DaliHatSerialDriver.__new__(AX.DaliHatSerialDriver)
    import logging
    ax.LOG = logging.getLogger("null")
    for v in range(256):
        res["evaluations"] += 1
        r = ax.extract("J%02X\n" % v)
        if not isinstance(r, BackwardFrame) or r.as_integer != v:
            add_violation(res, "C18:atx:decode", f"line J{v:02X}: {r!r}", {"driver": "atx", "what": "decode", "status": v, "rval": 0, "bits": 16, "value": 0, "twice": False, "cls": ""})
    for line in ("N\n", "X\n", "Z\n", "", "Jzz\n", "H0300\n"):
        if ax.extract(line) is not None:
            add_violation(res, "C18:atx:decode", f"line {line!r} decoded to a frame", {"driver": "atx", "what": "decode", "status": 0, "rval": 0, "bits": 16, "value": 0, "twice": False, "cls": ""})
    res["distinct"].add(("atx", "decode", "lines"))
    # HID Tridonic: junk report types / INFO codes must not disturb a send
    for rtype in range(256):
        if rtype in (0x71, 0x72, 0x73, 0x76):
            continue
        for info in ((0, 1, 2, 4, 5, 6, 255) if rtype == 0x77 else (0,)):
            res["evaluations"] += 1
            r = _trid_with_junk(rtype, info)
            if r != ("value", 0x42):
                add_violation(res, "C18:tridonic:decode-junk-report", f"a report of type {rtype:#x}/{info} before the answer changed the result to {r}",
                              {"driver": "tridonic", "what": "decode", "status": rtype, "rval": info, "bits": 16, "value": 0, "twice": False, "cls": ""})
    res["distinct"].add(("tridonic", "decode", "junk"))
    sample(res, {"decode": "daliserver 256x3, legacy tridonic 256x256, legacy hasseb 256x256, unipi, atx, hid tridonic junk reports"})


def _trid_with_junk(rtype, info):
    from dalimc.aio.hidworld import HidWorld, report
    from dali.gear.general import QueryActualLevel
    from dali.address import GearShort

    def make():
        async def co(w):
            return await w.driver.send(QueryActualLevel(GearShort(1)))
        w = HidWorld("tridonic", lambda b, v, i: ("value", 0x42), [Caller("c", co)])
        base = w.build

        def build():
            base()
            gw = w.gateway
            orig = gw.on_write

            def on_write(data):
                orig(data)
                if data[0] == 0x12:
                    # insert the junk report right before the answer report
                    gw.pending.insert(len(gw.pending) - 1, report(0x12, rtype, bytes([0, 0, 0, info]), data[1]))
            gw.on_write = on_write
        w.build = build
        return w
    w, obs = execute(make, Chooser())
    oc = obs["callers"][0]
    if oc[0] != "returned":
        return oc
    raw = oc[1].raw_value
    return ("none",) if raw is None else (("err",) if raw.error else ("value", raw.as_integer))


def replay(case):
    """Re-run the (small) shard the case came from; the runner keeps the violation with the same key."""
    d, what = case["driver"], case["what"]
    if what in ("decode", "send-receive"):
        res = new_result()
        _decode(res)
        return [v for v in res["violations"] if v["case"]["driver"] == d]
    if what == "seq":
        return run_shard(("seq-legacy",))["violations"]
    if what == "legacy-threads":
        return run_shard(("legacy-threads",))["violations"]
    if what.startswith("seq-from-"):
        return run_shard(("seq", [int(what.split("-")[-1])]))["violations"]
    if d in ASYNC:
        if what == "classes":
            return run_shard(("classes", d))["violations"]
        if what == "lengths":
            return run_shard(("lengths", d))["violations"]
        lo = (case["value"] // 8192) * 8192
        vs = run_shard(("raw16", d, lo, lo + 8192, 1 if case["value"] % 16 else 16))["violations"]
        return vs
    res = new_result()
    cmd = None
    for desc, c in class_commands():
        if type(c).__module__ + "." + type(c).__name__ == case.get("cls") and len(c.frame) == case["bits"] and c.frame.as_integer == case["value"]:
            cmd = c
    if cmd is None:
        cmd = raw_cmd(case["bits"], case["value"])
    check_sync(res, d, cmd, what)
    return res["violations"]
