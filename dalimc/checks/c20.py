"""C20 - observed bus traffic is reported once, decoded in context, paired up.

E3: traffic histories are fed to the real drivers through the gateway models; for the
Tridonic watcher every gap is 'short' or 'long' by scheduling (gateway report vs the
watcher's 200 ms timer), subscribers join and leave at every boundary; all schedules within
d deviations.  The oracle `ref_buswatch` is a direct transcription of the statement and
decodes frames with the literal tables (dalimc.spec.ref_codec), never with from_frame.
"""
import itertools

from dalimc.core.runner import new_result, add_violation, observe, sample
from dalimc.core.explorer import explore
from dalimc.spec import ref_codec as R
from dalimc.aio.engine import execute, Caller

ID = "C20"
OPTIMISED_STRIDE = {"quick": 12, "thorough": 24}      # every k-th shard once more in an interpreter started with -O
TRACE_STRIDE = {"quick": 8, "thorough": 16}      # every k-th shard once more with logging enabled down to TRACE
LEVEL = "model_checking"
ENGINE = "E3"
TECHNIQUE = "controlled-scheduler exploration of the real bus watcher / serial receivers fed with enumerated traffic histories; reference automaton transcribed from the statement"
RULE = ("histories of <= L bus transactions over an alphabet of 16 transaction kinds (plain, query+answer/silence/framing error, config "
        "twice/once/interrupted/+backward frame, enable-device-type + extended / unrelated command, 24-bit command, events, unknown "
        "frames, stray backward frame) x gap placement (timer before report) x subscriber join/leave points x own sends; a first subscriber that joins at every boundary while nobody was listening; "
        "all schedules with <= d deviations; serial receive queues additionally: every sequence of <= 6 (thorough 7) operations "
        "{frame arrives, subscriber k joins, subscriber k leaves}, k = 1..3, against set semantics; states = distinct (history, report list) observations")
ASSUMPTIONS = [
    "Tridonic: foreign frames arrive as mode-0x11 reports, own transmissions as mode-0x12 reports (gateway model of dalimc.aio.hidworld); documented firmware quirk: a foreign forward frame equal to the interface's last transmission, seen after that transmission has completed, is reported with mode 0x12 and the old sequence number (the frames that follow it are reported normally)",
    "a timer that fires in the same loop iteration in which a report is being handed to the watcher is ambiguous (asyncio resolves it either way); the oracle accepts both readings for exactly those timers",
    "a subscriber that joins/leaves in the iteration between the issue of a report and its delivery may or may not see it",
    "frames are decoded with the device type of an immediately preceding ENABLE DEVICE TYPE only; a standard opcode under a foreign device type decodes to the generic unknown command (library convention, see C01)",
]
SANITY = ["tridonic_reports", "tridonic_gaps", "tridonic_subscriber_deliveries", "tridonic_failed_config_reports",
          "tridonic_quirk_reports", "tridonic_late_joiner_reports", "tridonic_two_gateway_reports", "luba_reports", "sci_reports", "luba_extra_subscriber_reports", "sci_extra_subscriber_reports",
          "luba_subscriber_op_sequences", "sci_subscriber_op_sequences"]
BOUNDS = {"quick": "Tridonic: histories len<=2 at d<=2, len 3 at d<=1; serial: histories len<=3 (single schedule + chunk placement d<=1); subscribers <=2; late joiner: 11 kinds d<=2 + 44 pairs d<=1; own-frame-again quirk: 2 x 20 histories d<=2; serial subscriber operation sequences depth<=6; instance map re-bound at every point of 3 event histories (d<=2)",
          "thorough": "Tridonic: len<=3 at d<=2, len 4 at d<=1; serial len<=4; subscribers <=3"}

# ----------------------------------------------------------------------------- traffic alphabet
# each transaction kind expands to items ("F", bits, value) | ("B", v) | ("NO",) | ("ERR",)
OFF1 = 0x0300            # Off(short 1)
QAL1 = 0x03A0            # QueryActualLevel(short 1)
SCN1 = 0x0341            # SetScene(short 1, 1)  send twice
EDT6 = 0xC106
FFT2 = 0x05FD            # QueryFastFadeTime(short 2) under dt 6 / QueryExtendedVersionNumber... under dt 0
SDC2 = 0x05E3            # led.SelectDimmingCurve(short 2) under dt 6: device-type specific AND send twice
UNK16 = 0x03E5           # opcode 0xE5 under dt 0: unknown
QDS24 = 0x07FE30         # QueryDeviceStatus(short 3)
IDENT24 = 0x07FE00       # IdentifyDevice(short 3) send twice
EV_DEV = 0x0A0402        # device scheme: short 5, type 1, ShortPress
EV_DI = 0x0A8401         # device/instance: short 5, instance 1, data 1
UNK24 = 0x07FE7F         # unknown device opcode

ALPHABET = {
    "plain": [("F", 16, OFF1)],
    "query+answer": [("F", 16, QAL1), ("B", 0x42)],
    "query+silence": [("F", 16, QAL1)],
    "query+no": [("F", 16, QAL1), ("NO",)],
    "query+err": [("F", 16, QAL1), ("ERR",)],
    "config-twice": [("F", 16, SCN1), ("F", 16, SCN1)],
    "config-once": [("F", 16, SCN1)],
    "config+backward": [("F", 16, SCN1), ("B", 1)],
    "edt+ext": [("F", 16, EDT6), ("F", 16, FFT2), ("B", 7)],
    "edt+plain": [("F", 16, EDT6), ("F", 16, OFF1)],
    "ext-without-edt": [("F", 16, FFT2)],
    "edt-alone": [("F", 16, EDT6)],             # ... followed by whatever the history puts next (a 24-bit frame, a backward frame, ...)
    "edt+cfg-twice": [("F", 16, EDT6), ("F", 16, SDC2), ("F", 16, SDC2)],
    "edt+cfg-once": [("F", 16, EDT6), ("F", 16, SDC2)],
    "edt+cfg+backward": [("F", 16, EDT6), ("F", 16, SDC2), ("B", 3)],
    "unknown16": [("F", 16, UNK16)],
    "cmd24+answer": [("F", 24, QDS24), ("B", 0x80)],
    "config24-twice": [("F", 24, IDENT24), ("F", 24, IDENT24)],
    "event": [("F", 24, EV_DEV)],
    "event-devinst": [("F", 24, EV_DI)],
    "unknown24": [("F", 24, UNK24)],
    "stray-backward": [("B", 9)],
}
KINDS = list(ALPHABET)
# frames of another master that repeat the driver's own last transmission (own sends use short address 9): the
# DALI-USB reports such a frame as if it had sent it itself (documented firmware quirk) - still bus traffic
OWNQ, OWNC = 0x13A0, 0x1342
QUIRK_ALPHABET = {
    "own-query-again+answer": [("F", 16, OWNQ), ("B", 0x66)],
    "own-query-again+silence": [("F", 16, OWNQ)],
    "own-config-again-twice": [("F", 16, OWNC), ("F", 16, OWNC)],
    "own-config-again-once": [("F", 16, OWNC)],
}
# queries whose answer is interpreted through an enumeration: an answer byte OUTSIDE the enumeration is still a backward
# frame that followed the query (the watcher reports, it does not judge) - and must not stop the watcher
QES24 = 0x07018B         # QueryEventScheme(device 3, instance 1)
EDT8 = 0xC108
QAC8 = 0x05FC            # colour.QueryAssignedColour(short 2) under dt 8
ENUM_ALPHABET = {
    "enum24+invalid": [("F", 24, QES24), ("B", 7)],
    "enum24+valid": [("F", 24, QES24), ("B", 2)],
    "enum24+255": [("F", 24, QES24), ("B", 255)],
    "edt+enum16+invalid": [("F", 16, EDT8), ("F", 16, QAC8), ("B", 200)],
    "edt+enum16+valid": [("F", 16, EDT8), ("F", 16, QAC8), ("B", 3)],
}
# a frame of ANOTHER width with the same integer value as the send-twice command before it is a different frame, not its repeat
WIDTH_ALPHABET = {
    "config-once+24bit-same-value": [("F", 16, SCN1), ("F", 24, SCN1)],
    "edt+cfg-once+24bit-same-value": [("F", 16, EDT6), ("F", 16, SDC2), ("F", 24, SDC2)],
    "config24-once+16bit-same-value": [("F", 24, IDENT24), ("F", 16, IDENT24 & 0xFFFF)],
    "query+24bit-same-value": [("F", 16, QAL1), ("F", 24, QAL1)],
}
ALL_KINDS = dict(ALPHABET, **QUIRK_ALPHABET, **ENUM_ALPHABET, **WIDTH_ALPHABET, **{"fill-map": [("M",)]})


def row_flags(desc):
    """(sendtwice, answer class name | None) from the literal tables."""
    key = (desc[0], desc[1])
    if key not in R.BY_NAME:
        return False, None
    tab, r = R.BY_NAME[key]
    tw = {"GEAR_STD": 5, "GEAR_SPECIAL": 4, "DEV_STD": 3, "DEV_INST": 3, "DEV_SPECIAL": 5}[tab]
    return bool(r[tw]), r[tw + 1]


def ref_decode(bits, value, dt, maptype):
    if bits == 16:
        return R.decode16(value, dt)
    if bits == 24:
        return R.decode24(value, maptype)
    return ("command", "Command", (value,))


def ref_buswatch(items, maptype="nomap", pairing=True):
    """Reference automaton.  items additionally contain ("GAP", ambiguous).  Returns a LIST of
    possible report lists (more than one only because of ambiguous gaps).  A report is
    (descriptor, answer, error) with answer None | ('none',) | ('value', v) | ('err',)."""
    states = [([], None, 0, ())]     # (reports, current pending (desc, twice, frame), devicetype, index of the item that completed each report)
    for idx, it in enumerate(items):
        new = []
        for reports, cur, dt, tags in states:
            alts = [it]
            if it[0] == "GAP" and it[1]:
                alts = [("GAP", False), ("SKIP",)]
            for a in alts:
                r2, c2, d2 = _step(list(reports), cur, dt, a, maptype, pairing)
                new.append((r2, c2, d2, tags + (idx,) * (len(r2) - len(reports))))
        # dedupe
        seen, states = set(), []
        for s in new:
            k = repr(s)
            if k not in seen:
                seen.add(k)
                states.append(s)
    return [s[0] for s in states], states


def _step(reports, cur, dt, it, maptype, pairing):
    kind = it[0]
    if kind == "SKIP":
        return (reports, cur, dt)
    if cur is not None and pairing:
        desc, twice, fr = cur
        if twice:
            if kind == "GAP":
                reports.append((desc, None, True))
                return (reports, None, dt)
            if kind == "F":
                if (it[1], it[2]) == fr:
                    reports.append((desc, None, False))
                    return (reports, None, dt)
                reports.append((desc, None, True))
                cur = None
            elif kind in ("B", "ERR"):
                reports.append((desc, None, True))
                return (reports, None, dt)
            elif kind == "NO":
                reports.append((desc, None, True))
                return (reports, None, dt)
        else:
            if kind in ("GAP", "NO"):
                reports.append((desc, ("none",), False))
                return (reports, None, dt)
            if kind == "B":
                reports.append((desc, ("value", it[1]), False))
                return (reports, None, dt)
            if kind == "ERR":
                reports.append((desc, ("err",), False))
                return (reports, None, dt)
            reports.append((desc, ("none",), False))
            cur = None
    if kind == "F":
        desc = ref_decode(it[1], it[2], dt, maptype)
        dt = 0
        twice, ans = row_flags(desc)
        if pairing and (twice or ans is not None):
            cur = (desc, twice, (it[1], it[2]))
        else:
            reports.append((desc, None, False))
        if desc[:2] == ("gear.general", "EnableDeviceType"):
            dt = desc[2][0]
    return (reports, cur, dt)


def lib_report(command, response, error):
    desc = R.describe(command)
    if isinstance(desc[2], dict):
        desc = (desc[0], desc[1], tuple(sorted(desc[2].items())))
    if response is None:
        ans = None
    else:
        raw = response.raw_value
        ans = ("none",) if raw is None else (("err",) if raw.error else ("value", raw.as_integer))
        if type(response) is not type(command).response:
            ans = ("WRONG-RESPONSE-TYPE", type(response).__name__)
    return (desc, ans, bool(error))


def norm(reports):
    out = []
    for d, a, e in reports:
        if isinstance(d[2], dict):
            d = (d[0], d[1], tuple(sorted(d[2].items())))
        out.append((d, a, e))
    return out


# ----------------------------------------------------------------------------- Tridonic world

def make_trid_world(kinds, nsubs=0, own=None, with_map=False, perm=True):
    def make():
        from dalimc.aio.hidworld import HidWorld, report
        from dali.device.helpers import DeviceInstanceTypeMapper
        items = [it for kd in kinds for it in ALL_KINDS[kd]]
        reps = []
        for it in items:
            if it[0] == "F":
                reps.append(report(0x11, 0x73 if it[1] == 16 else 0x76, it[2].to_bytes(4, "big")))
            elif it[0] == "B":
                reps.append(report(0x11, 0x72, bytes([0, 0, 0, it[1]])))
            elif it[0] == "NO":
                reps.append(report(0x11, 0x71))
            else:
                reps.append(report(0x11, 0x77, bytes([0, 0, 0, 3])))
        callers = []
        if own:
            from dali.gear.general import QueryActualLevel, SetScene
            from dali.address import GearShort
            cmd = QueryActualLevel(GearShort(9)) if own == "query" else SetScene(GearShort(9), 2)

            async def co(w):
                return await w.driver.send(cmd)
            callers.append(Caller("own", co))
        w = HidWorld("tridonic", lambda b, v, i: ("value", 0x55) if (v & 0x1FF) == 0x1A0 else ("none",), callers, foreign=reps)
        w.items = items
        w.delivered = []            # order in which items / gaps actually happened
        w.nsubs = nsubs
        w.sublog = {}
        w.subhandles = {}
        w.subwindows = {}
        w.timer_budget = 3 * len(items) + 4
        w.with_map = with_map
        w.perm_subscriber = perm          # False: NOBODY is subscribed until a subscriber joins (late-joiner scenarios)
        base_build = w.build

        w.traffic_batches = []
        w.subreports = {}

        def build():
            base_build()
            if perm:
                w.driver.bus_traffic.register(lambda drv, c, r, e: w.traffic_batches.append((id(c), w.loop.batches)))
            if with_map and with_map != "rebound":
                m = DeviceInstanceTypeMapper()
                if with_map != "late":
                    m.add_type(short_address=5, instance_number=1, instance_type=3)
                w.driver.dev_inst_map = m
                w.the_map = m
        w.build = build
        base_extra = w.extra_events
        w.rebound = False

        def rebind():
            # the application assigns ANOTHER map object to the public attribute while the driver is up and watching
            m = DeviceInstanceTypeMapper()
            m.add_type(short_address=5, instance_number=1, instance_type=3)
            w.driver.dev_inst_map = m
            w.rebound = True
            w.rebind_pos = len(w.trace)
            w.rebind_reports = len([1 for k, c, r, e in w.traffic if k == 0])

        def extra():
            ev = list(base_extra())
            if with_map == "rebound" and not w.rebound:
                ev.append(("rebind-map", lambda: True, rebind, "event"))
            for k in range(w.nsubs):
                if k not in w.subhandles and k not in w.subwindows:
                    ev.append((f"sub:{k}", lambda: True, (lambda k=k: _sub(w, k)), "event"))
                elif k in w.subhandles and perm:      # (late-joiner scenarios: the subscriber stays)
                    ev.append((f"unsub:{k}", lambda: True, (lambda k=k: _unsub(w, k)), "event"))
            return ev
        w.extra_events = extra
        return w
    return make


def _sub(w, k):
    w.sublog[k] = []
    w.subreports[k] = []

    def cb(drv, c, r, e, k=k):
        w.sublog[k].append(id(c))
        w.subreports[k].append((c, r, e))
    w.subhandles[k] = w.driver.bus_traffic.register(cb)
    w.subwindows[k] = [w.loop.batches, None]
    w.subjoin_pos = getattr(w, "subjoin_pos", {})
    w.subjoin_pos[k] = len(w.trace)


def _unsub(w, k):
    w.subhandles.pop(k).unregister()
    w.subwindows[k][1] = w.loop.batches


def trid_items_from_trace(w):
    """Item sequence as the watcher experienced it: deliveries in order, own-send reports and
    GAPs where the timer fired.  Ambiguity of a gap = the loop was not idle when it fired."""
    return w.effective


def judge_late_joiner(res, cfg, w, obs):
    """Nobody is subscribed at first; subscriber 0 joins at some boundary.  It must receive exactly the reports that
    are COMPLETED after it joined - decoded and paired as if the watcher had been listening all along (the
    device type announced / the query / the first half of a send-twice command seen before the join count)."""
    case = dict(cfg, t="tridonic")
    maptype = 3 if cfg.get("with_map") else "nomap"
    _, states = ref_buswatch(w.effective, maptype)
    if w.status != "quiescent":
        add_violation(res, "C20:tridonic:horizon", f"{cfg}: horizon", case)
    got = norm([lib_report(c, r, e) for c, r, e in w.subreports.get(0, [])])
    observe(res, "tridonic_late_joiner_reports", len(got))
    if 0 not in w.subjoin_pos:
        if got:
            add_violation(res, "C20:tridonic:report-without-subscriber", f"{cfg}: {got}", case)
        return ("never-joined",)
    pj = w.subjoin_pos[0]                 # trace length when the subscriber was registered
    ok = False
    exp0 = None
    for reports, cur, dt, tags in states:
        reports = norm(reports)
        # a report completed by item i is certainly seen when the item reached the driver after the join, certainly not
        # when it had been processed and dispatched well before (>= 4 loop iterations earlier); in between either
        definite = [r for r, t in zip(reports, tags) if w.effective_pos[t] >= pj]
        maybe = [r for r, t in zip(reports, tags) if w.effective_pos[t] < pj and
                 sum(1 for x in w.trace[w.effective_pos[t]:pj] if x == "run") < 4]
        cands = [maybe[i:] + definite for i in range(len(maybe) + 1)]
        if exp0 is None:
            exp0 = definite
        if got in cands:
            ok = True
            break
    if not ok:
        key = "late-joiner:reports-differ"
        if exp0 is not None and [x[0] for x in got] == [x[0] for x in exp0]:
            key = "late-joiner:pairing-or-flag"
        elif exp0 is not None and len(got) < len(exp0):
            key = "late-joiner:report-missing"
        elif exp0 is not None and len(got) == len(exp0):
            key = "late-joiner:decoded-in-wrong-context"
        add_violation(res, f"C20:tridonic:{key}", f"history {cfg['kinds']} as experienced {w.effective}, subscriber joined at event {pj} "
                      f"(items reached the driver at {w.effective_pos}): received {got}, expected {exp0}", case)
    if w.loop_exceptions:
        add_violation(res, "C20:tridonic:loop-exception", f"{cfg}: {w.loop_exceptions[:2]}", case)
    return tuple(repr(x) for x in got)


def judge_trid(res, cfg, w, obs):
    case = dict(cfg, t="tridonic")
    got = norm([lib_report(c, r, e) for k, c, r, e in w.traffic if k == 0])
    observe(res, "tridonic_reports", len(got))
    observe(res, "tridonic_gaps", sum(1 for x in w.effective if x[0] == "GAP"))
    observe(res, "tridonic_subscriber_deliveries", sum(len(v) for v in w.sublog.values()))
    observe(res, "tridonic_failed_config_reports", sum(1 for x in got if x[2]))
    observe(res, "tridonic_quirk_reports", getattr(w, "quirk_reports", 0))
    maptype = 3 if cfg.get("with_map") else "nomap"
    poss, _ = ref_buswatch(w.effective, maptype)
    poss = [norm(p) for p in poss]
    if w.status != "quiescent":
        add_violation(res, "C20:tridonic:horizon", f"{cfg}: horizon", case)
    if cfg.get("with_map") == "rebound":
        # (histories of single forward frames only: report j belongs to the j-th frame.)  A frame delivered after the
        # application re-bound driver.dev_inst_map is decoded with the NEW map; one already reported before, with none;
        # one that was in flight at that moment, with either
        if not getattr(w, "rebound", False):
            raise RuntimeError(f"HARNESS: the map was never re-bound in {w.trace[-10:]}")
        before = [norm(p) for p in ref_buswatch(w.effective, "nomap")[0]]
        fpos = [w.effective_pos[i] for i, it in enumerate(w.effective) if it[0] == "F"]
        ok = False
        for a, b in zip(before, poss):
            if not (len(a) == len(b) == len(got) == len(fpos)):
                continue
            ok = ok or all((g == y if fpos[j] > w.rebind_pos else g == x if j < w.rebind_reports else g in (x, y))
                           for j, (g, x, y) in enumerate(zip(got, a, b)))
        observe(res, "tridonic_map_rebound_runs", 1)
        if not ok:
            add_violation(res, "C20:tridonic:decoded-with-stale-map", f"history {cfg['kinds']}: driver.dev_inst_map re-bound to another map (type 3 for 5/1) at trace "
                          f"position {w.rebind_pos} after {w.rebind_reports} reports; frames arrived at {fpos}; reported {got}; with the old map {before[0]}, "
                          f"with the new {poss[0]}", case)
    elif got not in poss:
        exp = poss[0]
        # classify: missing / duplicated / wrong decode / wrong pairing
        key = "reports-differ"
        gd, ed = [x[0] for x in got], [x[0] for x in exp]
        if gd == ed:
            key = "pairing-or-flag"
        elif len(gd) < len(ed):
            key = "report-missing"
        elif len(gd) > len(ed):
            key = "report-duplicated"
        else:
            key = "decoded-in-wrong-context"
        add_violation(res, f"C20:tridonic:{key}",
                      f"history {cfg['kinds']} own={cfg.get('own')} as experienced {w.effective}: reported {got}, expected {exp}", case)
    # subscribers: exactly the reports issued while registered.  A report issued in loop iteration i is
    # delivered (call_soon) in iteration i+1; joins/leaves happen between iterations, so membership at
    # issue time is determined by the iteration in which the permanent subscriber saw the report.
    for k, win in w.subwindows.items():
        s_, u_ = win[0], win[1]
        exp = [i for i, db in w.traffic_batches if db >= s_ + 1 and (u_ is None or db <= u_)]
        sl = w.sublog[k]
        if sl != exp:
            add_violation(res, "C20:tridonic:subscriber-delivery", f"{cfg}: subscriber {k} registered during iterations ({s_},{u_}] received {len(sl)} "
                          f"reports, expected {len(exp)} of {len(w.traffic_batches)}", case)
    if w.loop_exceptions:
        add_violation(res, "C20:tridonic:loop-exception", f"{cfg}: {w.loop_exceptions[:2]}", case)
    return tuple(repr(x) for x in got)


def run_trid(cfg, bound, res, outs):
    late = bool(cfg.get("late"))
    mk0 = make_trid_world(tuple(cfg["kinds"]), cfg.get("nsubs", 0), cfg.get("own"), cfg.get("with_map", False), perm=not late)

    def mk():
        w = mk0()
        w.log0, w.log1 = [], []
        # harness-side bookkeeping only: what each gateway delivery carried
        orig1 = w._deliver1

        def d1():
            it = tuple(w.items[len(w.log1)])
            w.log1.append(it)
            gw = w.gateway
            own_done = bool(w.callers) and all(c.task is not None and c.task.done() for c in w.callers)
            if it[0] == "F" and own_done and not gw.pending and gw.wire and gw.wire[-1][:2] == (it[1], it[2]):
                # firmware quirk: reported with mode 0x12 and the sequence number of the finished transmission
                from dalimc.aio.hidworld import report
                gw.observe[0] = report(0x12, 0x73 if it[1] == 16 else 0x76, it[2].to_bytes(4, "big"), gw.wire[-1][3])
                w.quirk_reports = getattr(w, "quirk_reports", 0) + 1
            orig1()
        w._deliver1 = d1
        orig0 = w._deliver0

        def d0():
            rep = w.gateway.pending[0]
            it = None
            if rep[0] == 0x12:
                rt = rep[1]
                if rt in (0x73, 0x76):
                    it = ("F", 16 if rt == 0x73 else 24, int.from_bytes(rep[2:6], "big"))
                elif rt == 0x72:
                    it = ("B", rep[5])
                elif rt == 0x71:
                    it = ("NO",)
                else:
                    it = ("ERR",)
            w.log0.append(it)
            orig0()
        w._deliver0 = d0
        return w

    for ch, (w, obs) in explore(lambda c: execute(mk, c), bound):
        # the item sequence as the watcher experienced it: deliveries in trace order, a GAP where the
        # timer fired; a gap is ambiguous when a delivery had not been fully processed yet (< 2 batches)
        seq, pos, i0, i1, unsettled = [], [], 0, 0, 0
        for n, ev in enumerate(w.trace):
            if ev == "gw:0":
                it = w.log0[i0]
                i0 += 1
                if it is not None:
                    seq.append(it)
                    pos.append(n + 1)
                    unsettled = 2
            elif ev == "gw:1":
                seq.append(w.log1[i1])
                pos.append(n + 1)
                i1 += 1
                unsettled = 2
            elif ev == "run":
                unsettled = max(0, unsettled - 1)
            elif ev == "timer":
                seq.append(("GAP", unsettled > 0))
                pos.append(n + 1)
        w.effective = seq
        w.effective_pos = pos           # trace length right after the event that brought each item
        if w.gateway.observe and w.status == "quiescent" and not w.lost:
            raise RuntimeError(f"HARNESS: Tridonic history {cfg['kinds']} was not delivered completely ({len(w.gateway.observe)} reports left; trace {w.trace[-10:]})")
        outs.add((tuple(cfg["kinds"]), (judge_late_joiner if late else judge_trid)(res, cfg, w, obs)))
        res["evaluations"] += 1
        res["traces"] += 1
        res["transitions"] += len(w.trace)


# ----------------------------------------------------------------------------- serial worlds

def make_serial_world(driver, kinds, nsubs, with_map, own=None):
    def make():
        from dalimc.aio.serialworld import SerialWorld, luba_rx_event, sci_frame
        from dali.device.helpers import DeviceInstanceTypeMapper
        items = [it for kd in kinds for it in ALL_KINDS[kd] if it[0] in ("F", "B", "M")]
        frames = []
        for it in items:
            if it[0] == "M":
                frames.append(None)        # not a gateway report: the application fills the (same) instance map at this point
            elif it[0] == "F":
                nb = it[1] // 8
                fb = list(it[2].to_bytes(nb, "big"))
                if driver == "luba":
                    frames.append(luba_rx_event(fb))
                else:
                    pad = [0] * (3 - nb) + fb
                    frames.append(sci_frame(0x50 | (3 if nb == 2 else 8), *pad))
            else:
                frames.append(luba_rx_event([it[1]]) if driver == "luba" else sci_frame(0x52, 0, 0, it[1]))
        callers = []
        if own:
            from dali.gear.general import QueryActualLevel
            from dali.address import GearShort

            async def co(w):
                return await w.driver.send(QueryActualLevel(GearShort(9)))
            callers.append(Caller("own", co))
        chunk_items = list(items)
        if own == "own-split":
            # every report reaches the host in two reads (cut after its 2nd byte); the item counts as delivered with the second
            chunks, chunk_items = [], []
            for fr, it in zip(frames, items):
                if fr is None or len(fr) < 4:
                    chunks.append(fr)
                    chunk_items.append(it)
                else:
                    chunks += [fr[:2], fr[2:]]
                    chunk_items += [None, it]
            frames = chunks
        w = SerialWorld(driver, lambda b, v, i: ("none",), callers, foreign=frames)
        w.chunk_items = chunk_items
        w.items = items
        w.nsubs = nsubs
        w.queues = {}
        w.qlogs = {}
        w.qwin = {}
        w.delivered = 0
        base_build = w.build

        def build():
            base_build()
            if with_map:
                m = DeviceInstanceTypeMapper()
                if with_map != "late":
                    m.add_type(short_address=5, instance_number=1, instance_type=3)
                w.driver.dev_inst_map = m
                w.the_map = m
        w.build = build
        w.effective = []

        def rx(data, item):
            w.protocol.data_received(data)
            if item is not None:
                w.effective.append(item)
                w.delivered += 1        # counted when the receiver has actually processed the frame

        def fill_map(item):
            w.the_map.add_type(short_address=5, instance_number=1, instance_type=3)
            w.effective.append(item)
            w.delivered += 1

        def d1():
            n = len(w.chunk_items) - len(w.gateway.observe)
            data = w.gateway.observe.pop(0)
            item = w.chunk_items[n]
            # one UART: while a report is half-way through, the gateway cannot start another message (gw:0 waits)
            w.mid_report = item is None and data is not None
            if data is None:
                w.loop.inject(fill_map, tuple(item))
            else:
                w.loop.inject(rx, data, None if item is None else tuple(item))
        w._deliver1 = d1

        def d0():
            data = w.gateway.pending.pop(0)
            item = None
            if driver == "sci" and len(data) == 5 and (data[0] & 0x0F) in (3, 8) and w.driver.is_connected:
                # the SCI echoes the driver's own transmission like a received frame
                nb = 2 if (data[0] & 0x0F) == 3 else 3
                item = ("F", 8 * nb, int.from_bytes(data[4 - nb:4], "big"))
            w.loop.inject(rx, data, item)
        w._deliver0 = d0

        def extra():
            ev = []
            if not w.driver.is_connected:
                return ev
            for k in range(w.nsubs + 1):
                if k not in w.queues and k not in w.qwin:
                    if k == 0:
                        _qsub(w, 0)     # permanent subscriber, created as soon as the driver is connected
                    else:
                        ev.append((f"sub:{k}", lambda: True, (lambda k=k: _qsub(w, k)), "event"))
                elif k in w.queues and k != 0:
                    ev.append((f"unsub:{k}", lambda: True, (lambda k=k: _qunsub(w, k)), "event"))
            return ev
        w.extra_events = extra
        base_channels = w.channels

        def channels():
            # foreign traffic only once the permanent subscriber exists (created as soon as the driver is connected)
            if w.driver.is_connected and 0 not in w.queues and 0 not in w.qwin:
                _qsub(w, 0)
            out = base_channels()
            if getattr(w, "mid_report", False):
                out = [c for c in out if c[0] != "gw:0"]
            return [c for c in out if c[0] != "gw:1" or 0 in w.queues]
        w.channels = channels
        base_finish = w.finish

        def finish():
            o = base_finish()
            for k, q in list(w.queues.items()):
                _drain(w, k)
            return o
        w.finish = finish
        return w
    return make


def _qsub(w, k):
    w.queues[k] = w.driver.new_dali_rx_queue()
    w.qlogs[k] = []
    w.qwin[k] = [w.delivered, None]


def _drain(w, k):
    q = w.queues[k]
    while not q.empty():
        w.qlogs[k].append(q.get_nowait())


def _qunsub(w, k):
    _drain(w, k)
    q = w.queues.pop(k)
    w.qwin[k][1] = w.delivered
    del q


def judge_serial(res, cfg, w, obs):
    drv = cfg["driver"]
    case = dict(cfg, t="serial")
    maptype = 3 if cfg.get("with_map") else "nomap"
    fitems = list(w.effective)
    if w.loop_exceptions and (w.gateway.observe or len([i for i in fitems if i in [tuple(x) for x in w.items]]) < len(w.items)):
        # the receiver raised while taking the gateway's bytes: the history could not be delivered - the library's doing
        add_violation(res, f"C20:{drv}:loop-exception", f"{drv} history {cfg['kinds'][:6]}{'...' if len(cfg['kinds']) > 6 else ''} ({len(w.items)} items): the receiver raised after "
                      f"{len(fitems)} items: {w.loop_exceptions[:2]}", case)
        return ("exception",)
    if w.gateway.observe or len([i for i in fitems if i in [tuple(x) for x in w.items]]) < len(w.items):
        raise RuntimeError(f"HARNESS: history {cfg['kinds']} was not delivered completely ({len(fitems)} of {len(w.items)} items; trace {w.trace[-12:]})")
    real = [it for it in fitems if it[0] != "M"]
    exp_all, _ = ref_buswatch(real, maptype, pairing=False)
    exp_all = norm(exp_all[0])
    # index of the forward frames among the delivered items
    fpos = [i for i, it in enumerate(fitems) if it[0] == "F"]
    if cfg.get("with_map") == "late":
        # frames received before the application filled the map are decoded with the map as it was then (no entry)
        before, _ = ref_buswatch(real, "nomap", pairing=False)
        before = norm(before[0])
        mpos = [i for i, it in enumerate(fitems) if it[0] == "M"]
        cut = mpos[0] if mpos else len(fitems)
        exp_all = [before[j] if i < cut else exp_all[j] for j, i in enumerate(fpos)]
    observe(res, f"{drv}_reports", sum(len(v) for v in w.qlogs.values()))
    observe(res, f"{drv}_extra_subscriber_reports", sum(len(v) for k2, v in w.qlogs.items() if k2 != 0))
    for k, log in w.qlogs.items():
        lo, hi = w.qwin[k][0], (w.qwin[k][1] if w.qwin[k][1] is not None else w.delivered)
        exp = [exp_all[j] for j, i in enumerate(fpos) if lo <= i < hi]
        got = []
        own_echo = 0
        for c in log:
            d = R.describe(c)
            if isinstance(d[2], dict):
                d = (d[0], d[1], tuple(sorted(d[2].items())))
            got.append((d, None, False))
        if got != exp:
            gd, ed = [x[0] for x in got], [x[0] for x in exp]
            if len(gd) < len(ed):
                key = "report-missing"
            elif len(gd) > len(ed):
                key = "report-duplicated"
            else:
                key = "decoded-in-wrong-context"
            add_violation(res, f"C20:{drv}:{key}", f"{drv} history {cfg['kinds']} subscriber {k} window [{lo},{hi}): got {[x[0][1] for x in got]}, expected {[x[0][1] for x in exp]} "
                          f"(full: got {got} expected {exp})", case)
    if w.loop_exceptions:
        add_violation(res, f"C20:{drv}:loop-exception", f"{cfg}: {w.loop_exceptions[:2]}", case)
    if obs["rx_state"] not in ("WAIT_START", "WAIT_STATUS"):
        add_violation(res, f"C20:{drv}:receiver-stuck", f"{cfg}: receiver state {obs['rx_state']}", case)
    return tuple(len(v) for v in w.qlogs.values())


# ----------------------------------------------------------------------------- two gateways in one process

class RouterOS:
    """os seam for TWO fake hidraw devices: read / write / close are routed by file descriptor."""
    O_RDWR, O_NONBLOCK = 2, 2048

    def __init__(self, worlds):
        self.worlds = worlds

    def _w(self, fd):
        for w in self.worlds:
            if w.fd == fd:
                return w
        raise OSError(9, "bad fd")

    def open(self, path, flags):
        raise FileNotFoundError(path)

    def read(self, fd, n):
        return self._w(fd).os_.read(fd, n)

    def write(self, fd, data):
        return self._w(fd).os_.write(fd, data)

    def close(self, fd):
        pass


def make_dual_world(frames_a, frames_b):
    """Two Tridonic drivers (two buses) in one event loop, each with its own subscriber and its own foreign traffic."""
    def make():
        from dalimc.aio.hidworld import HidWorld, report
        from dalimc.aio.engine import World
        subs = []
        for n, frames in enumerate((frames_a, frames_b)):
            reps = [report(0x11, 0x73, v.to_bytes(4, "big")) for v in frames]
            sw = HidWorld("tridonic", lambda b, v, i: ("none",), [], foreign=reps)
            sw.fd = 100 * n + 6                   # disjoint descriptor numbers
            sw.items = list(frames)
            subs.append(sw)

        class Dual(World):
            def build(self):
                for sw in subs:
                    sw.loop = self.loop
                    sw.trace = self.trace
                    sw.build()
                    sw.os_ = sw.H.os
                subs[0].H.os = RouterOS(subs)

            def channels(self):
                out = []
                for tag, sw in zip("ab", subs):
                    out += [(f"{tag}:{label}", pending, deliver) for label, pending, deliver in sw.channels()]
                return out

            def finish(self):
                return {"traffic": [[(c.frame.as_integer, r, e) for k, c, r, e in sw.traffic if k == 0] for sw in subs]}
        w = Dual()
        w.subs = subs
        w.timer_budget = 6
        return w
    return make


def run_dual(res, outs, bound):
    OFF1_, RMAX2, OFF3, RMIN4, DAPC5 = 0x0300, 0x0505, 0x0700, 0x0906, 0x0A80
    for fa, fb in (((OFF1_, OFF3), (RMAX2, RMIN4)), ((OFF1_,), (RMAX2, RMIN4, DAPC5)), ((OFF1_, OFF3, DAPC5), (RMAX2,))):
        mk = make_dual_world(fa, fb)
        for ch, (w, obs) in explore(lambda c: execute(mk, c), bound):
            got = [[t[0] for t in lst] for lst in obs["traffic"]]
            res["evaluations"] += 1
            res["traces"] += 1
            res["transitions"] += len(w.trace)
            observe(res, "tridonic_two_gateway_reports", sum(len(g) for g in got))
            if got != [list(fa), list(fb)] or any(t[2] for lst in obs["traffic"] for t in lst):
                add_violation(res, "C20:tridonic:two-gateways-mixed-up",
                              f"two Tridonic drivers in one process, bus A carries {[hex(x) for x in fa]}, bus B {[hex(x) for x in fb]}: subscribers of A were told "
                              f"{[hex(x) for x in got[0]]}, subscribers of B {[hex(x) for x in got[1]]} (events {w.trace[-8:]})", {"t": "dual", "bound": bound})
            outs.add(("dual", tuple(map(tuple, got))))


# ----------------------------------------------------------------------------- subscriber operation sequences (serial)

SUB_OPS = [("frame",)] + [("sub", k) for k in (1, 2, 3)] + [("unsub", k) for k in (1, 2, 3)] + [("drop", k) for k in (1, 2)]


def run_sub_sequences(res, outs, drv, first, depth):
    """Every sequence of <= depth operations {frame arrives, subscriber k joins, subscriber k leaves} (k = 1..3, first
    operation fixed by the shard) on ONE connected driver, against set semantics: a queue receives exactly the
    frames that arrived while it was subscribed; leaving removes that queue only.  Two ways of leaving: "unsub" =
    del_handler() on the parent queue, "drop" = the subscriber drops its only reference to the queue (the class
    unregisters in __del__; new_dali_rx_queue() offers no other way).  A dropped queue is watched through a weak
    reference: it must be gone, or at least receive nothing any more.  Joining twice / leaving while not
    subscribed are not operations (skipped sequences are not counted)."""
    import gc
    import weakref
    from dalimc.aio.serialworld import luba_rx_event, sci_frame
    from dalimc.core.explorer import Chooser

    def frame_bytes(n):
        fb = [0xFE, n & 0xFF]                      # DAPC broadcast, level n: every frame is distinguishable
        return luba_rx_event(fb) if drv == "luba" else sci_frame(0x53, 0, *fb)

    def sequences(prefix, d):
        yield prefix
        if d == 0:
            return
        for op in SUB_OPS:
            yield from sequences(prefix + [op], d - 1)
    mk = make_serial_world(drv, (), 0, False)
    for ops in sequences([SUB_OPS[first]], depth - 1):
        # legality: join only when absent, leave only when present
        present, legal = set(), True
        for op in ops:
            if op[0] == "sub":
                legal &= op[1] not in present
                present.add(op[1])
            elif op[0] in ("unsub", "drop"):
                legal &= op[1] in present
                present.discard(op[1])
        if not legal:
            continue
        w, obs = execute(mk, Chooser(()))          # default schedule: connect, permanent subscriber 0 created
        queues, logs, exp = {0: w.queues[0]}, {0: []}, {0: []}
        dropped = []                                # (k, weakref, frames seen before the drop)
        n = 0
        case = {"t": "subs", "driver": drv, "ops": [list(o) for o in ops]}
        try:
            for op in ops:
                if op[0] == "frame":
                    n += 1
                    w.protocol.data_received(frame_bytes(n))
                    for k in queues:
                        exp[k].append(n)
                elif op[0] == "sub":
                    queues[op[1]] = w.driver.new_dali_rx_queue()
                    logs.setdefault(op[1], [])
                    exp.setdefault(op[1], [])
                else:
                    q = queues.pop(op[1])
                    while not q.empty():
                        logs[op[1]].append(q.get_nowait().frame.as_integer & 0xFF)
                    if op[0] == "unsub":
                        w.driver._protocol.queue_rx_dali.del_handler(q)
                        after_unsub = q             # keep it: nothing may arrive in it any more
                        dropped.append((op[1], (lambda q=q: q), "unsub"))
                    else:
                        dropped.append((op[1], weakref.ref(q), "drop"))
                    del q
                    gc.collect(0)
            for k, ref, how in dropped:
                q = ref()
                if q is not None and not q.empty():
                    add_violation(res, f"C20:{drv}:delivery-after-{how}",
                                  f"{drv} operations {ops}: subscriber {k} left ({how}) but its queue still received {q.qsize()} frame(s)", case)
                    break
            for k, q in queues.items():
                while not q.empty():
                    logs[k].append(q.get_nowait().frame.as_integer & 0xFF)
        except Exception as e:
            add_violation(res, f"C20:{drv}:subscriber-ops-raise", f"{drv} {ops}: {e!r}", case)
            continue
        res["evaluations"] += 1
        res["transitions"] += len(ops)
        observe(res, f"{drv}_subscriber_op_sequences")
        if logs != exp:
            bad = sorted(k for k in exp if logs.get(k) != exp[k])
            add_violation(res, f"C20:{drv}:subscriber-delivery",
                          f"{drv} operations {ops}: subscribers {bad} received {[logs.get(k) for k in bad]}, expected {[exp[k] for k in bad]} "
                          f"(frames numbered in arrival order)", case)
        outs.add((drv, "subs", tuple(tuple(v) for v in logs.values())))


# ----------------------------------------------------------------------------- shards

def shards(tier):
    out = []
    L2 = list(itertools.product(KINDS, repeat=2))
    out.append(("trid", [(k,) for k in KINDS], 2, 0, None))
    for i in range(0, len(L2), 18):
        out.append(("trid", L2[i:i + 18], 2, 0, None))
    L3 = list(itertools.product(KINDS, repeat=3))
    step = 60
    for i in range(0, len(L3), step):
        out.append(("trid", L3[i:i + step], 1 if tier == "quick" else 2, 0, None))
    if tier == "thorough":
        core = ["plain", "query+answer", "query+silence", "config-twice", "config-once", "edt+ext", "edt+plain", "unknown16", "event"]
        L4 = list(itertools.product(core, repeat=4))
        for i in range(0, len(L4), 200):
            out.append(("trid", L4[i:i + 200], 1, 0, None))
    # subscribers and own sends
    sel = [("query+answer", "plain"), ("config-once", "plain"), ("edt+ext", "plain"), ("plain", "plain"), ("query+silence", "config-twice")]
    for nsubs in (1, 2) if tier == "quick" else (1, 2, 3):
        out.append(("trid", sel, 2 if nsubs < 3 else 1, nsubs, None))
    out.append(("trid", sel + [("event-devinst",), ("unknown24", "event-devinst")], 2, 0, "map"))
    # the application assigns ANOTHER map object to driver.dev_inst_map while the watcher is running (at every point of the history)
    out.append(("trid", [("event-devinst",), ("event-devinst", "event-devinst"), ("plain", "event-devinst", "event-devinst")], 2, 0, "map-rebound"))
    for own in ("query", "twice"):
        out.append(("trid", [("plain",), ("query+answer",), ("config-once",), ("edt+ext",)], 2 if tier == "quick" else 3, 0, own))
    # nobody subscribed at first, one subscriber joins at every boundary (a watcher that only works while somebody listens
    # loses the device type / the pending query / the first half of a send-twice command)
    late_kinds = ["query+answer", "query+silence", "config-twice", "config-once", "edt+ext", "edt+plain", "edt+cfg-twice", "cmd24+answer",
                  "config24-twice", "plain", "event-devinst"]
    out.append(("tridlate", [(k,) for k in late_kinds], 2))
    L2l = [(a, b) for a in late_kinds for b in ("plain", "query+answer", "edt+ext", "config-twice")]
    for i in range(0, len(L2l), 11):
        out.append(("tridlate", L2l[i:i + 11], 1 if tier == "quick" else 2))
    # enumerated answers, valid and invalid, followed by further traffic (the watcher must survive and keep reporting)
    eh = [(a,) for a in ENUM_ALPHABET] + [(a, b) for a in ENUM_ALPHABET for b in ("plain", "query+answer", "config-twice")] + \
         [(b, a) for a in ENUM_ALPHABET for b in ("plain", "edt+plain")]
    wh = [(a,) for a in WIDTH_ALPHABET] + [(a, b) for a in WIDTH_ALPHABET for b in ("plain", "config-twice")] + [(b, a) for a in WIDTH_ALPHABET for b in ("plain", "config-once")]
    out.append(("trid", wh, 2, 0, None))
    for drv in ("luba", "sci"):
        out.append(("serial", drv, wh, 0, 1, False))
    out.append(("trid", eh[:15], 2, 0, None))
    out.append(("trid", eh[15:], 1 if tier == "quick" else 2, 1, None))
    for drv in ("luba", "sci"):
        out.append(("serial", drv, eh, 0, 1, False))
    # foreign frames that repeat the driver's own last transmission (reported by the gateway with the old sequence number)
    for own, q in (("query", ["own-query-again+answer", "own-query-again+silence"]), ("twice", ["own-config-again-twice", "own-config-again-once"])):
        hs = [(a,) for a in q] + [(a, b) for a in q for b in q + ["plain", "query+answer"]] + [(b, a) for a in q for b in ("plain", "config-once")]
        out.append(("trid", hs, 2 if tier == "quick" else 3, 0, own))
    for drv in ("luba", "sci"):
        n = 3 if tier == "quick" else 4
        for L in range(1, n + 1):
            hs = list(itertools.product(KINDS if L <= 2 else ["plain", "edt+ext", "edt+plain", "unknown16", "ext-without-edt", "event-devinst", "unknown24", "stray-backward", "cmd24+answer", "edt-alone"], repeat=L))
            for i in range(0, len(hs), 150):
                out.append(("serial", drv, hs[i:i + 150], 0, 0, False))
        out.append(("serial", drv, sel + [("unknown16", "plain"), ("edt+plain", "unknown16")], 2, 2 if tier == "quick" else 3, False))
        out.append(("serial", drv, [("event-devinst",), ("event-devinst", "unknown24"), ("edt+ext", "event-devinst")], 1, 0, True))
        # the SAME map object, empty at first and filled by the application between two receptions of the same frame
        out.append(("serial", drv, [("event-devinst", "fill-map", "event-devinst"), ("event-devinst", "event-devinst", "fill-map", "event-devinst", "plain", "event-devinst"),
                                    ("fill-map", "event-devinst"), ("event-devinst", "fill-map"), ("edt+ext", "event-devinst", "fill-map", "edt+ext", "event-devinst")], 1, 1, "late"))
        out.append(("serial", drv, [("plain",), ("edt+ext",), ("unknown16",)], 1, 0, False, "own"))
        # the gateway's reports arrive in two reads each while the application starts a send of its own in between
        out.append(("serial", drv, [("plain",), ("plain", "query+answer"), ("edt+ext", "plain"), ("event", "plain")], 2, 0, False, "own-split"))
    for drv in ("luba", "sci"):
        for first in range(len(SUB_OPS)):
            out.append(("subs", drv, first, 6 if tier == "quick" else 7))
    # a long monitoring session without own sends: several hundred answered queries of another master, then plain commands
    for drv in ("luba", "sci"):
        out.append(("serial", drv, [("query+answer",) * 300 + ("plain", "edt+ext", "plain")], 0, 0, False))
    out.append(("trid", [("query+answer",) * 120 + ("plain", "edt+ext")], 0, 0, None))
    out.append(("dual", 2 if tier == "quick" else 3))
    out.append(("hasseb",))
    return out


def run_shard(shard):
    res = new_result()
    outs = set()
    k = shard[0]
    if k == "tridlate":
        _, hists, bound = shard
        for h in hists:
            cfg = dict(kinds=list(h), nsubs=1, own=None, with_map=False, bound=bound, late=True)
            run_trid(cfg, bound, res, outs)
        sample(res, {"driver": "tridonic", "late_joiner_histories": len(hists), "example": list(hists[-1]), "bound": bound})
    elif k == "trid":
        _, hists, bound, nsubs, opt = shard
        for h in hists:
            cfg = dict(kinds=list(h), nsubs=nsubs, own=opt if opt in ("query", "twice") else None, with_map=("rebound" if opt == "map-rebound" else opt == "map"), bound=bound)
            run_trid(cfg, bound, res, outs)
        sample(res, {"driver": "tridonic", "histories": len(hists), "example": list(hists[-1]), "bound": bound, "subscribers": nsubs, "option": opt})
    elif k == "dual":
        run_dual(res, outs, shard[1])
        sample(res, {"two_tridonic_gateways_in_one_process": True, "bound": shard[1]})
    elif k == "subs":
        run_sub_sequences(res, outs, shard[1], shard[2], shard[3])
        sample(res, {"driver": shard[1], "subscriber_operation_sequences_from": list(SUB_OPS[shard[2]]), "depth": shard[3]})
    elif k == "serial":
        drv, hists, bound, nsubs, with_map = shard[1:6]
        own = shard[6] if len(shard) > 6 else None
        for h in hists:
            cfg = dict(driver=drv, kinds=list(h), nsubs=nsubs, with_map=with_map, own=own, bound=bound)
            mk = make_serial_world(drv, tuple(h), nsubs, with_map, own)
            for ch, (w, obs) in explore(lambda c: execute(mk, c), bound):
                outs.add((drv, tuple(h), judge_serial(res, cfg, w, obs)))
                res["evaluations"] += 1
                res["traces"] += 1
                res["transitions"] += len(w.trace)
        sample(res, {"driver": drv, "histories": len(hists), "example": list(hists[-1]), "bound": bound, "subscribers": nsubs})
    else:
        # hasseb cannot listen; its own sends are reported once each, in order, with their responses
        from dalimc.aio.hidworld import HidWorld

        def mk():
            from dali.gear.general import Off, QueryActualLevel, SetScene
            from dali.gear.led import QueryFastFadeTime
            from dali.address import GearShort

            async def co(w):
                out = []
                for c in (Off(GearShort(1)), QueryActualLevel(GearShort(2)), SetScene(GearShort(3), 3), QueryFastFadeTime(GearShort(4))):
                    out.append(await w.driver.send(c))
                return out
            return HidWorld("hasseb", lambda b, v, i: ("value", 0x31), [Caller("own", co)])
        for ch, (w, obs) in explore(lambda c: execute(mk, c), 1):
            names = [type(c).__name__ for k2, c, r, e in w.traffic]
            exp = ["Off", "QueryActualLevel", "SetScene", "EnableDeviceType", "QueryFastFadeTime"]
            res["evaluations"] += 1
            res["transitions"] += len(w.trace)
            if names != exp or any(e for k2, c, r, e in w.traffic):
                add_violation(res, "C20:hasseb:own-traffic", f"hasseb own sends reported as {names}", {"t": "hasseb"})
            outs.add(tuple(names))
        sample(res, {"driver": "hasseb", "own_sends": 4})
    res["states"] = len(outs)
    res["distinct"] = outs
    return res


def replay(case):
    res = new_result()
    outs = set()
    t = case["t"]
    if t == "tridonic":
        cfg = {k: v for k, v in case.items() if k != "t"}
        run_trid(cfg, cfg.get("bound", 2), res, outs)
    elif t == "dual":
        run_dual(res, outs, case.get("bound", 2))
    elif t == "subs":
        ops = [tuple(o) for o in case["ops"]]
        run_sub_sequences(res, outs, case["driver"], SUB_OPS.index(ops[0]), len(ops))
        return [v for v in res["violations"] if v["case"].get("ops") == case["ops"]] or res["violations"]
    elif t == "serial":
        cfg = {k: v for k, v in case.items() if k != "t"}
        mk = make_serial_world(cfg["driver"], tuple(cfg["kinds"]), cfg.get("nsubs", 0), cfg.get("with_map", False), cfg.get("own"))
        for ch, (w, obs) in explore(lambda c: execute(mk, c), cfg.get("bound", 0)):
            judge_serial(res, cfg, w, obs)
    else:
        return run_shard(("hasseb",))["violations"]
    return res["violations"]
