"""C13 - control-device sequences move multi-byte settings and scan results intact.

E2: the real device sequences (query_input_value, SetEventFilters, QueryEventFilters,
SetEventSchemes, DeviceInstanceTypeMapper.autodiscover) closed with the device103
specification model; faults (silence / framing error at any answer) are deviation-bounded.
"""
import itertools

from dalimc.core.runner import new_result, add_violation, observe, sample
from dalimc.core.explorer import explore
from dalimc.env import device103 as D
from dalimc.env.gear102 import run_sequence
from . import _partner as P

ID = "C13"
OPTIMISED_STRIDE = {"quick": 8, "thorough": 16}      # every k-th shard once more in an interpreter started with -O
TRACE_STRIDE = {"quick": 8, "thorough": 16}      # every k-th shard once more with logging enabled down to TRACE
BYTEORDER_STRIDE = {"quick": 8, "thorough": 16}      # every k-th shard once more with sys.byteorder reporting a big-endian host
CHAIN_STRIDE = {'quick': 8, 'thorough': 24}      # every k-th shard is re-run in chains inside one process (non-initial process states)
LEVEL = "model_checking"
ENGINE = "E2"
TECHNIQUE = "stateless exploration of the real control-device generators against a spec model of IEC 62386-103 devices: inputs enumerated over stated domains, answer faults deviation-bounded at every step"
RULE = ("input value: resolutions 1..32 x structured values (all values for small resolutions) x explicit/queried resolution; "
        "filters: 8-, 16- and 24-bit wide enums (library and user-defined) and plain ints x flag combinations x stale DTR contents; "
        "schemes: 5 legal (enum and int) + invalid; scan: populations of <= N devices on addresses {0,1,63} from 12 archetypes, "
        "address-spec forms, address collisions; <= d faults {silence, framing error} at any answer; "
        "states = distinct configurations; transitions = commands executed")
ASSUMPTIONS = [
    "device model dalimc.env.device103 (SET EVENT FILTER takes DTR2:DTR1:DTR0; QUERY INPUT VALUE / LATCH per 103 9.7.2)",
    "an instance implements only the filter bits of its type's width, so filter equality is judged on the low dali_width() bits",
    "dense filter enums only (dali_width() == len(enum)); sparse user enums are an observation, not a violation",
    "autodiscover(int n) scans 0..n-1 as coded (the docstring is ambiguous); 'healthy' = status bits 'short address is mask' and 'reset state' clear",
]
SANITY = ["scan_runs", "scan_runs_with_fault", "scan_map_entries"]
BOUNDS = {"quick": "input values: all for resolution<=8, structured above; scan: N<=2 devices (+3 on a reduced archetype set), 1 fault; 64 addresses x instances {0,1,31} + addresses {0,5,63} x 32 instances x {object, int}",
          "thorough": "input values: all for resolution<=12; scan: N<=3, 2 faults on N<=2"}


# ----------------------------------------------------------------------------- fault wrapper

class FaultBus:
    def __init__(self, bus, chooser):
        self.bus, self.chooser = bus, chooser
        self.injected = []
        self.step = 0
        self.log = bus.log

    def execute(self, cmd):
        from dali import frame as F
        fr = self.bus.execute(cmd)
        if cmd.response is not None and self.chooser is not None:
            k = self.chooser.choose(3, f"fault@{self.step}", costs=[0, 1, 1])
            if k == 1:
                fr = None
                self.injected.append((self.step, type(cmd).__name__, "silence"))
            elif k == 2:
                fr = F.BackwardFrameError(fr.as_integer if fr is not None else 0)
                self.injected.append((self.step, type(cmd).__name__, "err"))
            self.step += 1
        return fr


def user_enums():
    from dali.device import general
    import enum
    F16 = enum.IntFlag("F16", {f"b{i}": 1 << i for i in range(16)}, type=None) if False else None
    ns16 = {f"b{i}": 1 << i for i in range(16)}
    ns24 = {f"b{i}": 1 << i for i in range(24)}
    F16 = general.InstanceEventFilter("F16", ns16)
    F24 = general.InstanceEventFilter("F24", ns24)
    return F16, F24


# ----------------------------------------------------------------------------- input value

def input_values(res_bits, tier):
    full = (1 << res_bits) - 1
    lim = 8 if tier == "quick" else 12
    if res_bits <= lim:
        return range(full + 1)
    alt = int("10" * 17, 2) & full
    return sorted({0, 1, full, full - 1, alt, alt >> 1, 1 << (res_bits - 1)} | {1 << i for i in range(res_bits)} |
                  {full ^ (1 << i) for i in range(0, res_bits, 3)})


def run_input(cfg, ch):
    from dali.device.sequences import query_input_value
    from dali.address import DeviceShort, InstanceNumber
    inst = D.Instance(itype=4, resolution=cfg["res"], value=cfg["value"])
    other = D.Instance(itype=1, resolution=3, value=5)
    dev = D.Device(short=7, instances=[other, inst])
    by = D.Device(short=8, instances=[D.Instance(itype=4, resolution=cfg["res"], value=0)])
    bus = FaultBus(D.Bus24([dev, by]), ch)
    a, i = (DeviceShort(7), InstanceNumber(1)) if cfg["form"] == "obj" else (7, 1)
    seq = query_input_value(a, i, resolution=cfg["res"] if cfg["explicit"] else None)
    kind, val, n = run_sequence(seq, bus, 60)
    return bus, kind, val, n


def judge_input(res, cfg, bus, kind, val, n):
    from dali.exceptions import DALISequenceError
    case = dict(cfg, t="input", injected=[list(i) for i in bus.injected])
    if bus.injected:
        if not (kind == "raise" and isinstance(val, DALISequenceError)):
            add_violation(res, "C13:input-fault-not-reported", f"{cfg} fault {bus.injected}: {kind} {val!r}", case)
        return "fault"
    if kind != "return" or val != cfg["value"] or type(val) is not int:
        add_violation(res, f"C13:input-value:res{cfg['res']}", f"resolution {cfg['res']} sensor value {cfg['value']:#x}: {kind} {val!r}", case)
    return "ok"


# ----------------------------------------------------------------------------- filters / schemes

def ref_width(enum_cls):
    """Width of a filter enum from its member count alone (parts 103/30x: 8, 16 or 24 filter bits)."""
    n = len(list(enum_cls))
    return 8 if n <= 8 else 16 if n <= 16 else 24


PRIORS = ["none", "base-width", "generic-query", "wide-first"]


def apply_prior(prior):
    """What the process did with filter enums BEFORE the case under test (the sequences must not depend on it)."""
    from dali.device import general
    if prior == "base-width":
        try:
            general.InstanceEventFilter.dali_width()
        except Exception:
            pass
    elif prior == "generic-query":
        from dali.device.sequences import QueryEventFilters
        from dali.address import DeviceShort, InstanceNumber
        for ft in (general, general.InstanceEventFilter):
            bus = D.Bus24([D.Device(short=7, instances=[D.Instance(), D.Instance(filt=0x123456)])])
            run_sequence(QueryEventFilters(DeviceShort(7), InstanceNumber(1), ft), bus, 60)       # outcome judged nowhere: it is only history


def filter_cases(tier):
    from dali.device import pushbutton, occupancy, light
    F16, F24 = user_enums()
    out = []
    for enum_cls, name in ((pushbutton.InstanceEventFilter, "pb"), (occupancy.InstanceEventFilter, "occ"),
                           (light.InstanceEventFilter, "light"), (F16, "F16"), (F24, "F24")):
        w = ref_width(enum_cls)
        members = list(enum_cls)
        full = 0
        for m in members:
            full |= int(m)
        vals = {0, full} | {int(m) for m in members}
        if w == 8 and tier == "thorough":
            vals |= {v for v in range(256) if v & ~full == 0}
        else:
            for a, b in itertools.combinations(members, 2):
                if tier == "thorough" or (int(a) | int(b)) % 5 == 0 or w == 8:
                    vals.add(int(a) | int(b))
            vals |= {full & 0xABCDEF, full & 0x00FF00, full & 0xFF0000, full & 0x0100FF}
        for v in sorted(vals):
            out.append((name, enum_cls, v))
    return out


def run_setfilter(cfg, enum_cls, ch):
    from dali.device.sequences import SetEventFilters
    from dali.address import DeviceShort, InstanceNumber
    inst = D.Instance(itype=1, filt=0x5A5A5A)
    dev = D.Device(short=7, instances=[D.Instance(itype=3, filt=0x111111), inst])
    dev.dtr0 = dev.dtr1 = dev.dtr2 = cfg["stale"]
    by = D.Device(short=8, instances=[D.Instance(), D.Instance(filt=0x222222)])
    bus = FaultBus(D.Bus24([dev, by]), ch)
    fv = enum_cls(cfg["value"]) if enum_cls is not None else cfg["value"]
    a, i = (DeviceShort(7), InstanceNumber(1)) if cfg["form"] == "obj" else (7, 1)
    kind, val, n = run_sequence(SetEventFilters(a, i, fv), bus, 60)
    return bus, dev, by, kind, val, n


def judge_setfilter(res, cfg, enum_cls, bus, dev, by, kind, val, n):
    case = dict(cfg, t="setfilter", injected=[list(i) for i in bus.injected])
    w = ref_width(enum_cls) if enum_cls is not None else 8
    if enum_cls is not None and enum_cls.dali_width() != w:
        add_violation(res, f"C13:enum-width:{cfg['enum']}", f"{cfg['enum']}.dali_width() = {enum_cls.dali_width()} for an enum of {len(list(enum_cls))} filter bits "
                      f"(history: {cfg.get('prior', 'none')})", case)
    mask = (1 << w) - 1
    inst = dev.instances[1]
    if kind != "return":
        add_violation(res, f"C13:setfilter-raised:{cfg['enum']}", f"{cfg}: {kind} {val!r}", case)
        return "raise"
    if dev.instances[0].filter != 0x111111 or by.instances[1].filter != 0x222222:
        add_violation(res, f"C13:setfilter-wrong-target:{cfg['enum']}", f"{cfg}: another instance was changed", case)
    if inst.filter & mask != cfg["value"] & mask:
        add_violation(res, f"C13:setfilter-stored:{cfg['enum']}",
                      f"SetEventFilters({cfg['enum']} {cfg['value']:#08x}) with stale DTRs {cfg['stale']:#04x}: instance filter is {inst.filter:#08x} "
                      f"(commands {[d[1] + str(list(d[2])[-1:]) for d, a in bus.log if d[1].startswith('DTR')]})", case)
    if bus.injected:
        if val is not None:
            add_violation(res, f"C13:setfilter-fault-value:{cfg['enum']}", f"{cfg} fault {bus.injected}: returned {val!r}", case)
        return "fault"
    if val is None or int(val) & mask != inst.filter & mask:
        add_violation(res, f"C13:setfilter-return:{cfg['enum']}", f"{cfg}: returned {val!r}, unit reports {inst.filter & mask:#08x}", case)
    elif enum_cls is not None and type(val) is not enum_cls:
        add_violation(res, f"C13:setfilter-return-type:{cfg['enum']}", f"{cfg}: returned a {type(val).__name__}", case)
    return "ok"


def run_queryfilter(cfg, ftype, ch):
    from dali.device.sequences import QueryEventFilters
    from dali.address import DeviceShort, InstanceNumber
    inst = D.Instance(itype=1, filt=cfg["value"])
    dev = D.Device(short=7, instances=[D.Instance(filt=0x0F0F0F), inst])
    bus = FaultBus(D.Bus24([dev, D.Device(short=8, instances=[D.Instance(), D.Instance(filt=0x333333)])]), ch)
    kind, val, n = run_sequence(QueryEventFilters(DeviceShort(7), InstanceNumber(1), ftype), bus, 60)
    return bus, kind, val, n


def run_scheme(cfg, ch):
    from dali.device.sequences import SetEventSchemes
    from dali.device.general import EventScheme
    from dali.address import DeviceShort, InstanceNumber
    inst = D.Instance(itype=1, scheme=cfg["old"])
    dev = D.Device(short=7, instances=[D.Instance(scheme=2), inst])
    dev.dtr0 = 0xA5
    dev.refuse_scheme = cfg.get("refuse", False)
    bus = FaultBus(D.Bus24([dev, D.Device(short=8, instances=[D.Instance(), D.Instance(scheme=3)])]), ch)
    sv = EventScheme(cfg["scheme"]) if cfg["as_enum"] else cfg["scheme"]
    a, i = (DeviceShort(7), InstanceNumber(1)) if cfg["form"] == "obj" else (7, 1)
    try:
        kind, val, n = run_sequence(SetEventSchemes(a, i, sv), bus, 60)
    except Exception as e:
        kind, val, n = "raise", e, 0
    return bus, dev, kind, val, n


# ----------------------------------------------------------------------------- autodiscover

def archetypes():
    I = D.Instance
    return {
        "none": dict(status=0, inst=[]),
        "one-pb": dict(status=0, inst=[I(1)]),
        "two-mixed": dict(status=0, inst=[I(3), I(4)]),
        "one-disabled": dict(status=0, inst=[I(1, enabled=False)]),
        "mixed-enabled": dict(status=0, inst=[I(1, enabled=False), I(31), I(4, enabled=False)]),
        "mask-status": dict(status=0x04, inst=[I(1)]),
        "reset-status": dict(status=0x40, inst=[I(3)]),
        "both-status": dict(status=0x44, inst=[I(4), I(1)]),
        "other-status": dict(status=0x3B, inst=[I(1)]),
        "type0": dict(status=0, inst=[I(0), I(3)]),
        "n32": dict(status=0, inst=[I([1, 3, 4, 31][k % 4], enabled=(k % 3 != 0)) for k in range(32)]),
        "unknown-type": dict(status=0, inst=[I(31), I(200)]),
    }


def run_scan(cfg, ch):
    from dali.device.helpers import DeviceInstanceTypeMapper
    arch = archetypes()
    devs = []
    for addr, an in cfg["devices"]:
        a = arch[an]
        devs.append(D.Device(short=addr, status=a["status"],
                             instances=[D.Instance(i.itype, i.enabled, i.resolution, i.value) for i in a["inst"]]))
    bus = FaultBus(D.Bus24(devs), ch)
    m = DeviceInstanceTypeMapper()
    if cfg.get("prior"):
        # the mapper has been used before: it already holds (possibly outdated) entries - from an earlier scan of another
        # population on the same addresses, or from initial=
        if cfg["prior"] == "initial":
            m = DeviceInstanceTypeMapper(initial={(addr, k): 31 for addr, an in cfg["devices"] for k in range(len(arch[an]["inst"]))})
        else:
            old = [D.Device(short=addr, status=0, instances=[D.Instance(31 if i.itype != 31 else 1, True) for i in arch[an]["inst"]])
                   for addr, an in cfg["devices"]]
            run_sequence(m.autodiscover(), D.Bus24(old), 6000)
    spec = cfg["spec"]
    if spec == "default":
        seq = m.autodiscover()
    elif spec[0] == "int":
        seq = m.autodiscover(spec[1])
    elif spec[0] == "tuple":
        seq = m.autodiscover((spec[1], spec[2]))
    elif spec[0] in ("iter", "generator", "set", "map", "range"):
        lst = list(spec[1:])
        arg = {"iter": lambda: iter(lst), "generator": lambda: (a for a in lst), "set": lambda: set(lst),
               "map": lambda: map(int, lst), "range": lambda: range(min(lst), max(lst) + 1)}[spec[0]]()
        seq = m.autodiscover(arg)
    else:
        seq = m.autodiscover(list(spec[1:]))
    kind, val, n = run_sequence(seq, bus, 600)
    return bus, devs, m, kind, val, n


def scanned_addresses(spec):
    if spec == "default":
        return list(range(64))
    if spec[0] == "int":
        return list(range(0, spec[1]))
    if spec[0] == "tuple":
        return list(range(spec[1], spec[2] + 1))
    if spec[0] == "range":
        return list(range(min(spec[1:]), max(spec[1:]) + 1))
    return list(spec[1:])


def judge_scan(res, cfg, bus, devs, m, kind, val, n):
    observe(res, "scan_runs")
    if bus.injected:
        observe(res, "scan_runs_with_fault")
    observe(res, "scan_map_entries", len(m.mapping))
    from dali.exceptions import DALISequenceError
    case = dict(cfg, t="scan", injected=[list(i) for i in bus.injected])
    arch = archetypes()
    scanned = scanned_addresses(cfg["spec"])
    truth = {}
    byaddr = {}
    for addr, an in cfg["devices"]:
        byaddr.setdefault(addr, []).append(an)
    for addr, ans in byaddr.items():
        if addr not in scanned or len(ans) != 1:
            continue            # collision on the status query -> skipped
        a = arch[ans[0]]
        if a["status"] & 0x44:
            continue
        for k, inst in enumerate(a["inst"]):
            if inst.enabled:
                truth[(addr, k)] = inst.itype
    tag = "fault" if bus.injected else "clean"
    if kind == "raise":
        if not (bus.injected and isinstance(val, DALISequenceError)):
            add_violation(res, f"C13:scan-raised:{tag}:{type(val).__name__}", f"{cfg} faults {bus.injected}: raised {val!r}", case)
        return "raise"
    if kind != "return":
        add_violation(res, f"C13:scan-unbounded:{tag}", f"{cfg}: {kind}", case)
        return "cap"
    got = dict(m.mapping)
    if cfg.get("prior"):
        # entries of instances that are enabled and answer NOW must carry the type they report now (what a re-scan does with
        # entries of instances that no longer answer is not specified: those are ignored)
        got = {k: v for k, v in got.items() if k in truth}
    if bus.injected:
        wrong = {k: v for k, v in got.items() if truth.get(k) != v}
        if wrong:
            add_violation(res, "C13:scan-wrong-entry-after-fault", f"{cfg} faults {bus.injected}: recorded {wrong}, true map {truth}", case)
    elif got != truth:
        add_violation(res, "C13:scan-map", f"{cfg}: recorded {got}, expected {truth}", case)
    names = [(d[1], d[2][0]) for d, a in bus.log]
    if not names or names[0] != ("StartQuiescentMode", ("broadcast",)) or names[-1] != ("StopQuiescentMode", ("broadcast",)) \
            or sum(1 for x in names if x[0] in ("StartQuiescentMode", "StopQuiescentMode")) != 2:
        add_violation(res, f"C13:scan-not-bracketed:{tag}", f"{cfg}: first {names[:1]} last {names[-1:]}", case)
    # ... and the units really were in quiescent mode in between (a START QUIESCENT MODE that is transmitted once is discarded)
    awake = [i for i, dv in enumerate(devs) if getattr(dv, "quiescent_log", None) not in (["start", "stop"],)]
    if awake and kind == "return":
        add_violation(res, f"C13:scan-units-not-quiescent:{tag}", f"{cfg}: units {awake} saw {[devs[i].quiescent_log for i in awake][:3]} - the scan ran while they were "
                      f"not in quiescent mode (commands discarded as sent once: {getattr(bus.bus if hasattr(bus, 'bus') else bus, 'sent_once_discarded', '?')})", case)
    return "ok"


# ----------------------------------------------------------------------------- shards

def shards(tier):
    out = []
    for r in range(1, 33):
        out.append(("input", r, tier))
    for prior in PRIORS:
        out.append(("filters", tier, prior))
        out.append(("qfilters", tier, prior))
    out.append(("schemes",))
    N = 2 if tier == "quick" else 3
    for k in range(0, N + 1):
        for p in range(1 if k < 2 else 12):
            out.append(("scan", k, p, 1 if k < 2 else 12, tier))
    if tier == "quick":
        out.append(("scan3q",))
    out.append(("scanspec",))
    out.append(("rescan",))
    out.append(("enums",))
    for part in range(4):
        out.append(("addr_sweep", part))
    out += P.partner_shards(PARTNERS, [0, 1, 3, "alt"])
    return out


def run_addr_sweep(res, part):
    """The instance sequences addressed to every short address x instance number (objects and plain integers):
    nothing may depend on WHICH unit / instance is addressed (0, 31 and 63 included)."""
    from dali.device.sequences import query_input_value, SetEventFilters, QueryEventFilters, SetEventSchemes
    from dali.device import pushbutton
    from dali.address import DeviceShort, InstanceNumber
    pairs = [(sa, inum) for sa in range(64) for inum in (0, 1, 31)] + [(sa, inum) for sa in (0, 5, 63) for inum in range(32)]
    for n, (sa, inum) in enumerate(pairs):
        if n % 4 != part:
            continue
        for form in ("obj", "int") + (("sub",) if sa in (0, 5, 63) and inum in (0, 1, 31) else ()):
            def world():
                insts = [D.Instance(itype=1, resolution=10, value=0x155, scheme=1, filt=0x111111) for _ in range(32)]
                insts[inum] = D.Instance(itype=1, resolution=10, value=0x2A6, scheme=4, filt=0x5A5A5A)
                dev = D.Device(short=sa, instances=insts)
                dev.dtr0 = dev.dtr1 = dev.dtr2 = 0xA5
                by = D.Device(short=(sa + 1) % 64, instances=[D.Instance(itype=1, resolution=10, value=0x3FF, scheme=3, filt=0x222222) for _ in range(32)])
                return dev, by, D.Bus24([dev, by])
            a, i = (DeviceShort(sa), InstanceNumber(inum)) if form == "obj" else (sa, inum)
            if form == "sub":       # instances of application subclasses of the address / instance classes
                a = type("LabelledDeviceShort", (DeviceShort,), {"label": "sensor"})(sa)
                i = type("LabelledInstanceNumber", (InstanceNumber,), {"label": "button"})(inum)
            case = {"t": "addr_sweep", "sa": sa, "inum": inum, "form": form}

            def untouched(dev, by):
                return all(x.filter == 0x111111 and x.scheme == 1 for j, x in enumerate(dev.instances) if j != inum) and \
                    all(x.filter == 0x222222 and x.scheme == 3 for x in by.instances)
            dev, by, bus = world()
            kind, val, _ = run_sequence(query_input_value(a, i), bus, 60)
            if kind != "return" or val != 0x2A6:
                add_violation(res, "C13:addr-sweep:input-value", f"query_input_value(device {sa}, instance {inum}, {form}): {kind} {val!r}, sensor value 0x2a6", case)
            dev, by, bus = world()
            fv = pushbutton.InstanceEventFilter(0x55)
            kind, val, _ = run_sequence(SetEventFilters(a, i, fv), bus, 60)
            if kind != "return" or dev.instances[inum].filter & 0xFF != 0x55 or val is None or int(val) != 0x55 or not untouched(dev, by):
                add_violation(res, "C13:addr-sweep:setfilter", f"SetEventFilters(device {sa}, instance {inum}, {form}, 0x55): {kind} {val!r}, "
                              f"instance filter {dev.instances[inum].filter:#08x}, others untouched: {untouched(dev, by)}", case)
            dev, by, bus = world()
            kind, val, _ = run_sequence(QueryEventFilters(a, i, pushbutton.InstanceEventFilter), bus, 60)
            if kind != "return" or val is None or int(val) != 0x5A:
                add_violation(res, "C13:addr-sweep:queryfilter", f"QueryEventFilters(device {sa}, instance {inum}, {form}): {kind} {val!r}, unit filter 0x5a", case)
            dev, by, bus = world()
            try:
                kind, val, _ = run_sequence(SetEventSchemes(a, i, 2), bus, 60)
            except Exception as e:
                kind, val = "raise", e
            if kind != "return" or dev.instances[inum].scheme != 2 or not untouched(dev, by):
                add_violation(res, "C13:addr-sweep:scheme", f"SetEventSchemes(device {sa}, instance {inum}, {form}, 2): {kind} {val!r}, "
                              f"instance scheme {dev.instances[inum].scheme}", case)
            res["evaluations"] += 4
            res["states"] += 4
    res["distinct"].add(("addr_sweep", part))
    sample(res, {"address_sweep_part": part, "pairs": len(pairs)})


def _partner_setfilter():
    from dali.device.sequences import SetEventFilters
    from dali.address import DeviceShort, InstanceNumber
    F16, F24 = user_enums()
    dev = D.Device(short=9, instances=[D.Instance(itype=1, filt=0x010203), D.Instance(itype=3, filt=0x040506), D.Instance(itype=1, filt=0x070809)])
    dev.dtr0 = dev.dtr1 = dev.dtr2 = 0x3C
    return SetEventFilters(DeviceShort(9), InstanceNumber(2), F24(0xA1B2C3)), D.Bus24([dev]), lambda: [(i.filter, i.scheme) for i in dev.instances]


def _partner_input():
    from dali.device.sequences import query_input_value
    from dali.address import DeviceShort, InstanceNumber
    dev = D.Device(short=9, instances=[D.Instance(itype=4, resolution=19, value=0x5A5A5)])
    return query_input_value(DeviceShort(9), InstanceNumber(0)), D.Bus24([dev]), lambda: [(i.filter, i.scheme) for i in dev.instances]


def _partner_scheme():
    from dali.device.sequences import SetEventSchemes
    from dali.address import DeviceShort, InstanceNumber
    dev = D.Device(short=9, instances=[D.Instance(itype=1, scheme=0), D.Instance(itype=1, scheme=1)])
    return SetEventSchemes(DeviceShort(9), InstanceNumber(1), 3), D.Bus24([dev]), lambda: [(i.filter, i.scheme) for i in dev.instances]


PARTNERS = [("SetEventFilters(24-bit user enum)", _partner_setfilter), ("query_input_value(19 bits)", _partner_input), ("SetEventSchemes", _partner_scheme)]
PARTNERED = [("schemes",), ("qfilters", "quick", "wide-first"), ("input", 10, "quick"), ("input", 25, "quick"), ("scan", 1, 0, 10, "quick")]


def run_shard(shard):
    if shard[0] == "partnered":
        import sys
        return P.run_partnered(sys.modules[__name__], shard, PARTNERS, PARTNERED)
    from dali.exceptions import DALISequenceError
    res = new_result()
    k = shard[0]
    if k == "addr_sweep":
        run_addr_sweep(res, shard[1])
        return res
    if k == "rescan":
        # the scan on a mapper that was used before (earlier scan of other units on the same addresses / initial= entries)
        names = ["one-pb", "two-mixed", "mixed-enabled", "type0", "both-status", "one-disabled"]
        for prior in ("scan", "initial"):
            for an in names:
                for addr in (0, 5, 63):
                    cfg = dict(devices=[(addr, an)], spec="default", prior=prior)
                    bus, devs, m, kind, val, n = run_scan(cfg, None)
                    judge_scan(res, cfg, bus, devs, m, kind, val, n)
                    res["evaluations"] += 1
                    res["transitions"] += n
            cfg = dict(devices=[(1, "two-mixed"), (2, "one-pb"), (40, "type0")], spec="default", prior=prior)
            bus, devs, m, kind, val, n = run_scan(cfg, None)
            judge_scan(res, cfg, bus, devs, m, kind, val, n)
            res["evaluations"] += 1
        # "addresses" may be any iterable of ints: every spelling scans the same units
        for spelling in ("list", "iter", "generator", "set", "map", "range"):
            cfg = dict(devices=[(3, "two-mixed"), (7, "one-pb"), (20, "type0"), (63, "mixed-enabled")], spec=(spelling, 3, 7, 20, 63, 5))
            bus, devs, m, kind, val, n = run_scan(cfg, None)
            judge_scan(res, cfg, bus, devs, m, kind, val, n)
            res["evaluations"] += 1
        res["distinct"].add(("rescan", "ok"))
        sample(res, {"rescan_on_used_mapper": names})
        return res
    if k == "enums":
        # filter bits and event-scheme numbers against literal tables (IEC 62386-301 / -303 / -304 event filter tables,
        # -103 Table "eventScheme"): the sequences store int(member), so a renamed or renumbered member would otherwise go unseen
        from dali.device import pushbutton, occupancy, light, general
        tables = {
            "pushbutton.InstanceEventFilter": (pushbutton.InstanceEventFilter, {"button_released": 1, "button_pressed": 2, "short_press": 4, "double_press": 8,
                                                                                "long_press_start": 16, "long_press_repeat": 32, "long_press_stop": 64, "button_stuck_free": 128}),
            "occupancy.InstanceEventFilter": (occupancy.InstanceEventFilter, {"occupied": 1, "vacant": 2, "repeat": 4, "movement": 8, "no_movement": 16}),
            "light.InstanceEventFilter": (light.InstanceEventFilter, {"illuminance_level": 1}),
            "general.EventScheme": (general.EventScheme, {"instance": 0, "device": 1, "device_instance": 2, "device_group": 3, "instance_group": 4}),
        }
        for ename, (cls, table) in tables.items():
            lib = {m.name: int(m.value) for m in cls}
            for n in sorted(set(lib) | set(table)):
                res["evaluations"] += 1
                if lib.get(n) != table.get(n):
                    add_violation(res, f"C13:enum-number:{ename}", f"{ename}.{n} = {lib.get(n)}, the standard says {table.get(n)}", {"t": "enums", "enum": ename, "name": n})
            if hasattr(cls, "dali_width") and cls.dali_width() != 8:
                add_violation(res, f"C13:enum-width:{ename}", f"{ename}.dali_width() = {cls.dali_width()}", {"t": "enums", "enum": ename, "name": "width"})
            res["distinct"].add(("enum", ename))
        sample(res, {"enums": list(tables)})
        return res
    if k == "input":
        _, r, tier = shard
        vals = list(input_values(r, tier))
        for v in vals:
            for explicit in (True, False):
                cfg = dict(res=r, value=v, explicit=explicit, form="obj")
                faulty = v in (0, vals[-1], vals[len(vals) // 2])
                for ch, obs in explore(lambda c: run_input(cfg, c), bound=1 if faulty else 0):
                    bus, kind, val, n = obs
                    o = judge_input(res, cfg, bus, kind, val, n)
                    res["evaluations"] += 1
                    res["traces"] += 1
                    res["transitions"] += n
                    res["distinct"].add(("input", r, o))
            res["states"] += 1
        cfg = dict(res=r, value=vals[-1], explicit=True, form="int")
        bus, kind, val, n = run_input(cfg, None)
        judge_input(res, cfg, bus, kind, val, n)
        sample(res, {"input_resolution": r, "values": len(vals)})
    elif k == "filters":
        tier = shard[1]
        prior = shard[2] if len(shard) > 2 else "none"
        apply_prior(prior)
        cases = filter_cases(tier)
        if prior == "wide-first":
            cases = cases[::-1]
        if prior != "none":
            cases = [c for i, c in enumerate(cases) if c[0] in ("F16", "F24") and i % 7 == 0 or c[0] == "pb" and i % 3 == 0]
        for name, enum_cls, v in cases:
            for stale in (0x00, 0xFF, 0xA5):
                cfg = dict(enum=name, value=v, stale=stale, form="obj", prior=prior)
                b = 1 if (stale == 0xA5 and v % 3 == 0) else 0
                for ch, obs in explore(lambda c: run_setfilter(cfg, enum_cls, c), bound=b):
                    bus, dev, by, kind, val, n = obs
                    o = judge_setfilter(res, cfg, enum_cls, bus, dev, by, kind, val, n)
                    res["evaluations"] += 1
                    res["traces"] += 1
                    res["transitions"] += n
                    res["distinct"].add(("setfilter", name, o))
                res["states"] += 1
        for v in range(256):
            for stale in (0x00, 0xA5):
                cfg = dict(enum="int", value=v, stale=stale, form="int")
                bus, dev, by, kind, val, n = run_setfilter(cfg, None, None)
                judge_setfilter(res, cfg, None, bus, dev, by, kind, val, n)
                res["evaluations"] += 1
                res["states"] += 1
                res["transitions"] += n
        for bad in ("x", None, 1.5):
            from dali.device.sequences import SetEventFilters
            bus = D.Bus24([D.Device(short=7, instances=[D.Instance()])])
            kind, val, n = run_sequence(SetEventFilters(7, 0, bad), bus, 20)
            if kind != "raise" or n:
                add_violation(res, "C13:setfilter-bad-type-accepted", f"SetEventFilters(filter_value={bad!r}): {kind}", {"t": "setfilter-bad", "v": repr(bad)})
        sample(res, {"filter_cases": len(filter_cases(tier)), "stale_dtr": [0, 255, 0xA5]})
    elif k == "qfilters":
        from dali.device import pushbutton, occupancy, light
        prior = shard[2] if len(shard) > 2 else "none"
        apply_prior(prior)
        F16, F24 = user_enums()
        ftypes = [("pb", pushbutton.InstanceEventFilter), ("pb-module", pushbutton), ("occ", occupancy),
                  ("light", light.InstanceEventFilter), ("F16", F16), ("F24", F24)]
        if prior == "wide-first":
            ftypes = ftypes[::-1]
        for fname, ftype in ftypes:
            enum_cls = getattr(ftype, "InstanceEventFilter", ftype)
            w = ref_width(enum_cls)
            if enum_cls.dali_width() != w:
                add_violation(res, f"C13:enum-width:{fname}", f"{fname}.dali_width() = {enum_cls.dali_width()} for an enum of {len(list(enum_cls))} filter bits "
                              f"(history: {prior})", {"t": "queryfilter", "enum": fname, "value": 0, "prior": prior})
            full = 0
            for mbr in enum_cls:
                full |= int(mbr)
            vals = sorted({0, 1, 0xFF, 0x100, 0xFF00, 0x10000, 0xFF0000, 0xFFFFFF, 0xABCDEF, 0x123456, 0x80, 0x8000, 0x800000})
            for v in vals:
                cfg = dict(enum=fname, value=v, prior=prior)
                for ch, obs in explore(lambda c: run_queryfilter(cfg, ftype, c), bound=1):
                    bus, kind, val, n = obs
                    case = dict(cfg, t="queryfilter", injected=[list(i) for i in bus.injected])
                    res["evaluations"] += 1
                    res["transitions"] += n
                    if kind != "return":
                        # undefined flag bits may be rejected by a strict enum; tolerated only when bits are undefined
                        if v & ((1 << w) - 1) & ~full and isinstance(val, ValueError):
                            observe(res, "queryfilter_undefined_bits_rejected")
                            continue
                        add_violation(res, f"C13:queryfilter-raised:{fname}", f"{cfg}: {kind} {val!r}", case)
                        continue
                    if bus.injected:
                        if val is not None:
                            add_violation(res, f"C13:queryfilter-fault-value:{fname}", f"{cfg} fault {bus.injected}: returned {val!r}", case)
                        continue
                    if val is None or int(val) != v & ((1 << w) - 1):
                        add_violation(res, f"C13:queryfilter-value:{fname}", f"unit filter {v:#08x}, width {w}: returned {val!r}", case)
                    res["distinct"].add(("queryfilter", fname, w))
                res["states"] += 1
        try:
            from dali.device.sequences import QueryEventFilters
            bus = D.Bus24([])
            kind, val, n = run_sequence(QueryEventFilters(7, 0, int), bus, 20)
            if kind != "raise" or n:
                add_violation(res, "C13:queryfilter-bad-type-accepted", f"QueryEventFilters(filter_type=int): {kind}", {"t": "queryfilter-bad"})
        except Exception:
            pass
        sample(res, {"queryfilter": "6 filter types x 13 unit filters x 1 fault"})
    elif k == "schemes":
        for scheme in range(5):
            for as_enum in (True, False):
                for old in (0, 4):
                    for refuse in (False, True):
                        for form in ("obj", "int"):
                            cfg = dict(scheme=scheme, as_enum=as_enum, old=old, refuse=refuse, form=form)
                            for ch, obs in explore(lambda c: run_scheme(cfg, c), bound=1):
                                bus, dev, kind, val, n = obs
                                case = dict(cfg, t="scheme", injected=[list(i) for i in bus.injected])
                                res["evaluations"] += 1
                                res["transitions"] += n
                                inst = dev.instances[1]
                                if kind != "return":
                                    add_violation(res, "C13:scheme-raised", f"{cfg}: {kind} {val!r}", case)
                                    continue
                                want = old if refuse else scheme
                                if inst.scheme != want or dev.instances[0].scheme != 2:
                                    add_violation(res, "C13:scheme-stored", f"{cfg}: instance scheme {inst.scheme}", case)
                                if not bus.injected:
                                    try:
                                        rv = int(val.value)
                                    except Exception as e:
                                        rv = repr(e)
                                    if rv != inst.scheme:
                                        add_violation(res, "C13:scheme-return", f"{cfg}: returned {val!r} -> {rv}, unit reports {inst.scheme}", case)
                                elif val is not None:
                                    # the read-back was lost or garbled: whatever is returned must not read as a scheme
                                    from dali.exceptions import ResponseError, MissingResponse
                                    try:
                                        rv = val.value
                                        if rv is not None:
                                            add_violation(res, "C13:scheme-fault-value", f"{cfg} with fault {bus.injected}: the returned object reads as {rv!r}", case)
                                    except (ResponseError, MissingResponse):
                                        pass
                                    except Exception as e:
                                        add_violation(res, "C13:scheme-fault-unrelated-exception", f"{cfg} with fault {bus.injected}: reading the returned object raised {e!r}", case)
                                res["distinct"].add(("scheme", scheme, refuse, bool(bus.injected)))
                            res["states"] += 1
        for bad in (5, 255, -1, 6):
            cfg = dict(scheme=bad, as_enum=False, old=1, form="obj")
            bus, dev, kind, val, n = run_scheme(cfg, None)
            res["evaluations"] += 1
            if kind != "raise" or n != 0 or dev.instances[1].scheme != 1:
                add_violation(res, "C13:scheme-invalid-accepted", f"SetEventSchemes(scheme={bad}): {kind} {val!r} after {n} commands", dict(cfg, t="scheme-bad"))
        sample(res, {"schemes": "5 x enum/int x refuse x 1 fault + invalid {5,255,-1,6}"})
    elif k == "scan":
        _, ndev, part, parts, tier = shard
        names = list(archetypes())
        addrs = [0, 1, 63]
        idx = 0
        for combo in itertools.combinations(addrs, ndev):
            for an in itertools.product(names, repeat=ndev):
                idx += 1
                if idx % parts != part:
                    continue
                heavy = "n32" in an
                cfg = dict(devices=[[a, n_] for a, n_ in zip(combo, an)], spec="default")
                bound = 0 if (heavy and ndev > 1) else (2 if (tier == "thorough" and ndev <= 1 and not heavy) else 1)
                if ndev == 3:
                    bound = 1 if (tier == "thorough" and idx % 7 == 0 and not heavy) else 0
                for ch, obs in explore(lambda c: run_scan(cfg, c), bound=bound):
                    bus, devs, m, kind, val, n = obs
                    o = judge_scan(res, cfg, bus, devs, m, kind, val, n)
                    res["evaluations"] += 1
                    res["traces"] += 1
                    res["transitions"] += n
                    res["distinct"].add(("scan", ndev, o, len(m.mapping)))
                res["states"] += 1
        sample(res, {"scan_devices": ndev, "archetypes": names})
    elif k == "scan3q":
        names = ["one-pb", "two-mixed", "mask-status", "mixed-enabled"]
        for an in itertools.product(names, repeat=3):
            cfg = dict(devices=[[a, n_] for a, n_ in zip([0, 1, 63], an)], spec="default")
            bus, devs, m, kind, val, n = run_scan(cfg, None)
            judge_scan(res, cfg, bus, devs, m, kind, val, n)
            res["evaluations"] += 1
            res["states"] += 1
            res["transitions"] += n
            res["distinct"].add(("scan3", len(m.mapping)))
        sample(res, {"scan3": "4^3 populations, no faults"})
    elif k == "scanspec":
        specs = ["default", ["int", 0], ["int", 1], ["int", 2], ["int", 64], ["tuple", 0, 0], ["tuple", 1, 63], ["tuple", 63, 63],
                 ["tuple", 5, 3], ["list", 63, 0], ["list", 1], ["list"], ["list", 1, 1]]
        pops = [[[0, "one-pb"], [1, "two-mixed"], [63, "type0"]], [[1, "one-pb"], [1, "two-mixed"]], [[0, "one-pb"], [0, "one-pb"], [63, "n32"]]]
        for spec in specs:
            for pop in pops:
                cfg = dict(devices=pop, spec=spec)
                for ch, obs in explore(lambda c: run_scan(cfg, c), bound=0):
                    bus, devs, m, kind, val, n = obs
                    if spec == ["list", 1, 1]:
                        # scanning an address twice: the map is idempotent
                        pass
                    o = judge_scan(res, cfg, bus, devs, m, kind, val, n)
                    res["evaluations"] += 1
                    res["states"] += 1
                    res["transitions"] += n
                    res["distinct"].add(("scanspec", str(spec), o))
        sample(res, {"scan_address_specs": specs})
    return res


def replay(case):
    res = new_result()
    t = case["t"]
    nf = len(case.get("injected", []))
    if t == "enums":
        return run_shard(("enums",))["violations"]
    if t == "addr_sweep":
        vs = []
        for part in range(4):
            r = new_result()
            run_addr_sweep(r, part)
            vs += [v for v in r["violations"] if v["case"] == case]
        return vs
    if t == "input":
        cfg = {k: case[k] for k in ("res", "value", "explicit", "form")}
        for ch, obs in explore(lambda c: run_input(cfg, c), bound=nf):
            judge_input(res, cfg, *obs)
    elif t == "setfilter":
        cfg = {k: case[k] for k in ("enum", "value", "stale", "form")}
        cfg["prior"] = case.get("prior", "none")
        apply_prior(cfg["prior"])
        enum_cls = None
        for name, ec, v in filter_cases("quick"):
            if name == cfg["enum"]:
                enum_cls = ec
        for ch, obs in explore(lambda c: run_setfilter(cfg, enum_cls, c), bound=nf):
            judge_setfilter(res, cfg, enum_cls, *obs)
    elif t == "scan":
        cfg = {"devices": [tuple(d) for d in case["devices"]], "spec": case["spec"] if isinstance(case["spec"], str) else tuple(case["spec"]), "prior": case.get("prior")}
        for ch, obs in explore(lambda c: run_scan(cfg, c), bound=nf):
            judge_scan(res, cfg, *obs)
    elif t in ("queryfilter", "queryfilter-bad"):
        return run_shard(("qfilters", "quick", case.get("prior", "none")))["violations"]
    elif t in ("scheme", "scheme-bad"):
        return run_shard(("schemes",))["violations"]
    else:
        return run_shard(("filters", "quick"))["violations"]
    return res["violations"]
