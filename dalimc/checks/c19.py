"""C19 - serial receivers deframe any byte stream like the protocol's grammar.

Explicit exploration of the real LubaProtocol / SCIRS232Protocol receivers: token sequences
(valid frames of every type, corrupted checksums, every length byte 0..255, every truncation,
noise) up to a depth, each under several chunkings, compared with the reference deframers of
dalimc.spec.ref_deframer on the contents of the receiver's queues.
"""
import itertools
from functools import reduce
from operator import xor

from dalimc.core.runner import new_result, add_violation, observe, sample
from dalimc.spec import ref_deframer as RD

ID = "C19"
OPTIMISED_STRIDE = {"quick": 10, "thorough": 20}      # every k-th shard once more in an interpreter started with -O
TRACE_STRIDE = {"quick": 4, "thorough": 8}      # every k-th shard once more with logging enabled down to TRACE
BYTEORDER_STRIDE = {"quick": 10, "thorough": 20}      # every k-th shard once more with sys.byteorder reporting a big-endian host
CHAIN_STRIDE = {'quick': 10, 'thorough': 30}      # every k-th shard is re-run in chains inside one process (non-initial process states)
LEVEL = "model_checking"
ENGINE = "E3"
TECHNIQUE = "exhaustive enumeration of token sequences up to a depth x chunk placements through the real receiver state machines vs independent reference deframers"
RULE = ("LUBA: all sequences of <= D tokens over {valid frames of 11 types, 3 corrupted checksums, length bytes 0..255, every proper "
        "prefix of a valid frame, 4 noise bytes} + the full single-frame space 256 cmd x 256 len x {good, bad checksum}; each stream is "
        "followed by 24 zero bytes and a sentinel frame; chunkings: one chunk, bytewise, every single cut (two cuts for short streams); "
        "SCI: all 5-byte groups over status 0..255 x data patterns x good/bad checksum, sequences <= D; "
        "states = distinct (stream class, delivered item list) observations; transitions = bytes fed")
ASSUMPTIONS = [
    "grammar and resynchronisation rule as documented in dalimc.spec.ref_deframer (payload <= 20 bytes because the receiver's frame buffer is 24 bytes)",
    "streams containing a checksum-valid frame whose payload is malformed for its type are set aside (the driver raises deliberately)",
    "transmit confirmations are compared by frame id only (the decoded message is used for logging)",
]
BOUNDS = {"quick": "LUBA: depth 2 over the full alphabet (~300 tokens), depth 3 over 24 tokens; SCI: depth 2 over 60 groups, depth 3 over 12; consumer-queue lifecycles: all sequences over {new, drop-oldest, drop-newest, feed} to depth 6 per receiver",
          "thorough": "LUBA: depth 3 over 60 tokens, depth 4 over 14; SCI: depth 3 over 60, depth 4 over 12; consumer-queue lifecycles to depth 8"}


def lf(cmd, payload):
    body = [cmd, len(payload)] + list(payload)
    return bytes([0x59] + body + [reduce(xor, body)])


def luba_tokens():
    T = {}
    T["txconf16"] = lf(0x31, [0, 1, 0, 0x10, 7, 0x03, 0xA0])
    T["txconf24"] = lf(0x31, [0, 2, 0, 0x18, 8, 0x07, 0xFE, 0x30])
    T["rx8"] = lf(0x31, [0, 3, 0, 0x88, 0x42])
    T["rx16"] = lf(0x31, [0, 4, 0, 0x90, 0x03, 0x00])
    T["rx24"] = lf(0x31, [0, 5, 0, 0x98, 0x07, 0xFE, 0x30])
    T["rx-unknown16"] = lf(0x31, [0, 5, 0, 0x90, 0x03, 0xE5])
    T["rx-framing"] = lf(0x31, [0, 6, 0, 0xBF])
    T["rx-startstop"] = lf(0x31, [0, 6, 0, 0xBE])
    T["accept"] = lf(0x33, [9, 0])
    T["reject"] = lf(0x33, [2])
    T["devinfo"] = lf(0x21, [0, 0, 0, 0, 0, 1] + [0] * 7 + [2, 3, 4] + list((24166096).to_bytes(4, "big")))
    T["settings"] = lf(0x2B, [0, 0x12, 0])
    T["unknowncmd"] = lf(0x77, [1, 2, 3])
    T["unexpectedcmd"] = lf(0x2C, [1, 2])
    T["event-type1"] = lf(0x31, [0, 0, 0, 0x48, 1, 2])
    for k in ("rx8", "txconf16", "devinfo"):
        b = bytearray(T[k])
        b[-1] ^= 0x5A
        T["badsum-" + k] = bytes(b)
    trunc = {}
    for k in ("rx8", "rx16", "txconf16", "accept"):
        for cut in range(1, len(T[k])):
            trunc[f"trunc-{k}-{cut}"] = T[k][:cut]
    lens = {}
    for L in range(256):
        if 1 <= L <= 20:
            lens[f"len-{L}"] = lf(0x31, [0, 0, 0, 0x88] + [0x11] * (L - 4)) if L >= 5 else lf(0x2C, [0x11] * L)
        else:
            lens[f"len-{L}"] = bytes([0x59, 0x31, L])
    noise = {f"noise-{b:02x}": bytes([b]) for b in (0x00, 0x59, 0x31, 0xFF)}
    return T, trunc, lens, noise


LUBA_SENTINEL = lf(0x31, [0, 9, 0, 0x88, 0xA7])
LUBA_TAIL = bytes(24) + LUBA_SENTINEL


def sf(st, hi, mid, lo, bad=False):
    c = st ^ hi ^ mid ^ lo
    return bytes([st, hi, mid, lo, c ^ (0x40 if bad else 0)])


SCI_SENTINEL = sf(0x52, 0, 0, 0xA7)


def sci_tokens():
    T = {}
    for code in range(16):
        for idn in (0, 5):
            T[f"st-{idn}{code:x}"] = sf((idn << 4) | code, 0x07, 0xFE, 0x30)
    for code in (0, 2, 3, 7, 8):
        T[f"bad-{code:x}"] = sf(0x50 | code, 1, 2, 3, bad=True)
    for lo in (0, 1, 3, 5, 6, 255):
        T[f"err-{lo}"] = sf(0x57, 0, 0, lo)
    T["unknown16"] = sf(0x53, 0, 0x03, 0xE5)
    T["edt"] = sf(0x53, 0, 0xC1, 0x06)
    return T


# ----------------------------------------------------------------------------- running the real receivers

class Rx:
    """Fresh receiver + readers for its queues."""

    def __init__(self, kind):
        from dali.driver import serial as S
        self.kind = kind
        if kind == "luba":
            self.p = S.DriverLubaRs232.LubaProtocol()
        else:
            self.p = S.DriverSCIRS232.SCIRS232Protocol()
        self.child = S.DistributorQueue(self.p.queue_rx_dali)
        self.exc = None

    def feed(self, chunks):
        for c in chunks:
            try:
                self.p.data_received(c)
            except Exception as e:      # the rest of this chunk is lost, as with a real transport
                if self.exc is None:
                    self.exc = e

    def items(self):
        out = []
        p = self.p

        def drain(q):
            r = []
            while not q.empty():
                r.append(q.get_nowait())
            return r
        raw = [("raw", v) for v in drain(p._queue_rx_raw_dali)]
        obs = [("observed", len(c.frame), c.frame.as_integer) for c in drain(self.child)]
        if self.kind == "luba":
            tx = [("txconf", c.tx_id) for c in drain(p._queue_tx_conf)]
            info = []
            for x in drain(p._queue_rx_luba_cmd):
                if type(x).__name__ == "LubaDeviceInfo":
                    info.append(("info", x.article_num))
                else:
                    info.append(("settings", x.mode, x.event_filter))
            return {"raw": raw, "observed": obs, "txconf": tx, "info": info}
        sysm = [("sys", x.id, x.code) for x in drain(p._queue_rx_info)]
        return {"raw": raw, "observed": obs, "sys": sysm}


def ref_items(kind, stream):
    if kind == "luba":
        items, aside = RD.luba_deframe(stream)
        return {"raw": [i for i in items if i[0] == "raw"], "observed": [i for i in items if i[0] == "observed"],
                "txconf": [("txconf", i[1]) for i in items if i[0] == "txconf"],
                "info": [i for i in items if i[0] in ("info", "settings")]}, aside
    items = RD.sci_deframe(stream)
    return {"raw": [i for i in items if i[0] == "raw"], "observed": [i for i in items if i[0] == "observed"],
            "sys": [i for i in items if i[0] == "sys"]}, False


def chunkings(stream, two_cuts):
    n = len(stream)
    yield "one", [stream]
    yield "bytes", [stream[i:i + 1] for i in range(n)]
    for c in range(1, n):
        yield f"cut{c}", [stream[:c], stream[c:]]
    if two_cuts:
        for a, b in itertools.combinations(range(1, n), 2):
            yield f"cut{a},{b}", [stream[:a], stream[a:b], stream[b:]]


def check_stream(res, kind, names, stream, two_cuts=False, fast=False):
    tail = LUBA_TAIL if kind == "luba" else SCI_SENTINEL
    full = stream + tail
    exp, aside = ref_items(kind, full)
    if aside:
        observe(res, "streams_set_aside")
        return "aside"
    case = {"kind": kind, "tokens": list(names), "stream": stream.hex()}
    first = None
    for cname, chunks in (chunkings(full, two_cuts) if not fast else [("one", [full]), ("bytes", [full[i:i + 1] for i in range(len(full))])]):
        rx = Rx(kind)
        rx.feed(chunks)
        res["transitions"] += len(full)
        got = rx.items()
        if rx.exc is not None:
            add_violation(res, f"C19:{kind}:internal-error:{type(rx.exc).__name__}",
                          f"{kind} stream {names} ({stream.hex()}) chunking {cname}: data_received raised {rx.exc!r}", dict(case, chunking=cname))
        if got != exp:
            which = [k for k in exp if got.get(k) != exp[k]]
            sentinel = ("raw", 0xA7)
            key = "sentinel-lost" if sentinel not in got["raw"] else "items-differ:" + which[0]
            add_violation(res, f"C19:{kind}:{key}",
                          f"{kind} stream {names} ({stream.hex()}) chunking {cname}: queues {which} hold {[got[k] for k in which]}, reference {[exp[k] for k in which]}",
                          dict(case, chunking=cname))
        if first is None:
            first = got
        elif got != first:
            add_violation(res, f"C19:{kind}:chunking-dependence", f"{kind} stream {names}: chunking {cname} delivers {got}, single chunk {first}", dict(case, chunking=cname))
        state = rx.p._rx_state.name
        if state not in ("WAIT_START", "WAIT_STATUS"):
            add_violation(res, f"C19:{kind}:receiver-not-idle", f"{kind} stream {names}: receiver ends in state {state} after a complete sentinel frame", dict(case, chunking=cname))
    return repr(exp)


def check_two_receivers(res, kind, names_a, stream_a, names_b, stream_b):
    """Two receivers alive in ONE process (two adapters), fed in turns byte by byte / in small chunks: each must deliver
    what its OWN stream contains (nothing a receiver remembers may be shared between objects)."""
    tail = LUBA_TAIL if kind == "luba" else SCI_SENTINEL
    fa, fb = stream_a + tail, stream_b + tail
    (ea, aside_a), (eb, aside_b) = ref_items(kind, fa), ref_items(kind, fb)
    if aside_a or aside_b:
        return
    for step in (1, 2, 3):
        ra, rb = Rx(kind), Rx(kind)
        ia = ib = 0
        while ia < len(fa) or ib < len(fb):
            if ia < len(fa):
                ra.feed([fa[ia:ia + step]])
                ia += step
            if ib < len(fb):
                rb.feed([fb[ib:ib + 1]])
                ib += 1
        res["transitions"] += len(fa) + len(fb)
        for who, rx, exp, names, stream in (("first", ra, ea, names_a, stream_a), ("second", rb, eb, names_b, stream_b)):
            got = rx.items()
            if got != exp or rx.exc is not None:
                which = [k for k in exp if got.get(k) != exp[k]]
                add_violation(res, f"C19:{kind}:two-receivers-interfere",
                              f"two {kind} receivers fed in turns ({step} / 1 bytes): the {who} one ({names}) delivers {[got.get(k) for k in which]}, "
                              f"its own stream contains {[exp[k] for k in which]}; exception {rx.exc!r}",
                              {"kind": kind, "tokens": list(names_a), "stream": stream_a.hex(), "other": stream_b.hex(), "other_tokens": list(names_b)})
    observe(res, f"two_receiver_runs_{kind}")


# ----------------------------------------------------------------------------- shards

CONSUMER_OPS = ("new", "drop-oldest", "drop-newest", "feed")


def run_consumers(res, kind, ops):
    """One lifecycle of consumer queues (DistributorQueue children of the receiver, what new_dali_rx_queue() hands out):
    every consumer alive at the end holds exactly the observed commands received since it was created, in order."""
    from dali.driver import serial as S
    p = S.DriverLubaRs232.LubaProtocol() if kind == "luba" else S.DriverSCIRS232.SCIRS232Protocol()
    if kind == "luba":
        T = luba_tokens()[0]
        toks = [T["rx16"], T["rx-unknown16"]]
    else:
        T = sci_tokens()
        toks = [T["unknown16"], T["edt"]]
    alive = []          # [queue, expected observed items, birth number]
    born = fed = 0
    for op in list(ops) + ["feed", "feed"]:
        if op == "new":
            alive.append([S.DistributorQueue(p.queue_rx_dali), [], born])
            born += 1
        elif op == "drop-oldest":
            if alive:
                alive.pop(0)            # (the only reference: the queue object is freed here)
        elif op == "drop-newest":
            if alive:
                alive.pop()
        else:
            data = toks[fed % 2]
            fed += 1
            exp = ref_items(kind, data)[0]["observed"]
            p.data_received(data)
            res["transitions"] += len(data)
            for a in alive:
                a[1].extend(exp)
    for q, exp, n in alive:
        got = []
        while not q.empty():
            c = q.get_nowait()
            got.append(("observed", len(c.frame), c.frame.as_integer))
        if got != exp:
            add_violation(res, f"C19:{kind}:consumer-queue", f"{kind} consumer lifecycle {list(ops)} + 2 feeds: consumer number {n} (one of {len(alive)} alive) holds "
                          f"{got}, the receiver observed {exp} since it was created", {"kind": kind, "consumer_ops": list(ops)})
    return (len(alive), fed)


def shards(tier):
    out = []
    T, trunc, lens, noise = luba_tokens()
    allnames = list(T) + list(trunc) + list(lens) + list(noise)
    out.append(("luba1",))
    for i in range(0, len(allnames), 12):
        out.append(("luba2", i, i + 12))
    for c0 in range(0, 256, 16):
        out.append(("lubaframe", c0, c0 + 16))
    red = ["rx8", "rx16", "txconf16", "accept", "badsum-rx8", "unknowncmd", "len-0", "len-20", "len-21", "len-22", "len-23", "len-24",
           "len-255", "trunc-rx8-1", "trunc-rx8-2", "trunc-rx8-3", "trunc-rx8-6", "trunc-txconf16-5", "noise-59", "noise-00", "settings",
           "rx-framing", "rx-unknown16", "len-1"]
    if tier == "thorough":
        red = red + ["rx24", "txconf24", "devinfo", "reject", "event-type1", "unexpectedcmd", "badsum-devinfo", "len-2", "len-4", "len-5", "len-19",
                     "trunc-rx16-4", "trunc-accept-3", "noise-31", "noise-ff", "rx-startstop"] + [f"len-{L}" for L in (25, 32, 64, 89, 128)]
    for a in red:
        out.append(("luba3", a, tuple(red)))
    if tier == "thorough":
        small = ["rx8", "txconf16", "badsum-rx8", "len-21", "len-23", "len-0", "trunc-rx8-3", "noise-59", "accept", "unknowncmd", "len-20", "rx16", "trunc-txconf16-5", "len-255"]
        for a, b in itertools.product(small, repeat=2):
            out.append(("luba4", a, b, tuple(small)))
    S = sci_tokens()
    out.append(("sci1",))
    sn = list(S)
    for i in range(0, len(sn), 6):
        out.append(("sci2", i, i + 6))
    sred = ["st-50", "st-51", "st-52", "st-53", "st-58", "st-57", "bad-2", "bad-3", "err-3", "err-0", "st-5f", "unknown16"]
    for a in sred:
        out.append(("sci3", a, tuple(sred) if tier == "quick" else tuple(sn)))
    out.append(("scigroups",))
    # long streams (several hundred bytes): the same item many times over, and alternations - nothing may pile up in the receiver
    out.append(("lubalong", tuple(red)))
    out.append(("scilong", tuple(sred)))
    # every lifecycle of the consumer queues an application obtains from new_dali_rx_queue(), up to a depth
    for kind in ("luba", "sci"):
        out.append(("consumers", kind, 6 if tier == "quick" else 8))
    return out


def run_shard(shard):
    from dalimc.aio.vloop import VLoop
    res = new_result()
    loop = VLoop()
    loop.enter()
    try:
        _run(shard, res)
    finally:
        loop.shutdown()
    return res


def _run(shard, res):
    k = shard[0]
    outs = set()
    if k == "consumers":
        _, kind, depth = shard
        n = 0
        for L in range(depth + 1):
            for ops in itertools.product(CONSUMER_OPS, repeat=L):
                outs.add(run_consumers(res, kind, ops))
                n += 1
        res["evaluations"] += n
        res["traces"] = res.get("traces", 0) + n
        for o in outs:
            res["distinct"].add(("consumers", kind) + o)
        sample(res, {"consumer_lifecycles": n, "depth": depth, "ops": list(CONSUMER_OPS), "receiver": kind})
        return
    if k.startswith("luba"):
        T, trunc, lens, noise = luba_tokens()
        ALL = {}
        ALL.update(T)
        ALL.update(trunc)
        ALL.update(lens)
        ALL.update(noise)
        names = list(ALL)
        if k == "luba1":
            for nm in names:
                outs.add(check_stream(res, "luba", [nm], ALL[nm], two_cuts=nm in T))
                res["evaluations"] += 1
            tn = list(T)
            for a in tn:
                for b in tn[::2]:
                    check_two_receivers(res, "luba", [a], ALL[a] + ALL[tn[0]], [b], ALL[b])
                    res["evaluations"] += 1
        elif k == "luba2":
            for a in names[shard[1]:shard[2]]:
                for b in names:
                    outs.add(check_stream(res, "luba", [a, b], ALL[a] + ALL[b], fast=True))
                    res["evaluations"] += 1
        elif k == "luba3":
            a, red = shard[1], shard[2]
            for b in red:
                for c in red:
                    outs.add(check_stream(res, "luba", [a, b, c], ALL[a] + ALL[b] + ALL[c], fast=True))
                    res["evaluations"] += 1
        elif k == "luba4":
            a, b, small = shard[1], shard[2], shard[3]
            for c in small:
                for d in small:
                    outs.add(check_stream(res, "luba", [a, b, c, d], ALL[a] + ALL[b] + ALL[c] + ALL[d], fast=True))
                    res["evaluations"] += 1
        elif k == "lubalong":
            for nm in names:
                for n in (40, 100) + ((300, 520) if nm in ("rx8", "rx16", "txconf16", "accept") else ()):
                    outs.add(check_stream(res, "luba", [nm] * n, ALL[nm] * n, fast=True))
                    res["evaluations"] += 1
            for a in shard[1]:
                for b in shard[1]:
                    if a != b:
                        outs.add(check_stream(res, "luba", [a, b] * 50, (ALL[a] + ALL[b]) * 50, fast=True))
                        res["evaluations"] += 1
        elif k == "lubaframe":
            for cmd in range(shard[1], shard[2]):
                for L in range(256):
                    for bad in (False, True):
                        if 1 <= L <= 23:
                            body = [cmd, L] + [(7 * j + cmd) & 0xFF for j in range(L)]
                            s = bytes([0x59] + body + [reduce(xor, body) ^ (0x21 if bad else 0)])
                        else:
                            if bad:
                                continue
                            s = bytes([0x59, cmd, L])
                        outs.add(check_stream(res, "luba", [f"frame-{cmd:02x}-{L}-{'bad' if bad else 'ok'}"], s, fast=True))
                        res["evaluations"] += 1
        sample(res, {"luba_shard": [str(x)[:40] for x in shard[:3]], "alphabet": len(names)})
    else:
        S = sci_tokens()
        names = list(S)
        if k == "sci1":
            for nm in names:
                outs.add(check_stream(res, "sci", [nm], S[nm], two_cuts=True))
                res["evaluations"] += 1
            for a in names:
                for b in names[::3]:
                    check_two_receivers(res, "sci", [a], S[a] + S[names[0]], [b], S[b])
                    res["evaluations"] += 1
        elif k == "sci2":
            for a in names[shard[1]:shard[2]]:
                for b in names:
                    outs.add(check_stream(res, "sci", [a, b], S[a] + S[b]))
                    res["evaluations"] += 1
        elif k == "sci3":
            a, red = shard[1], shard[2]
            for b in red:
                for c in (red if len(red) < 20 else red[::3]):
                    outs.add(check_stream(res, "sci", [a, b, c], S[a] + S[b] + S[c], fast=True))
                    res["evaluations"] += 1
        elif k == "scilong":
            for nm in names:
                for n in (40, 100) + ((300, 520) if nm in ("st-52", "st-53", "st-50", "st-51") else ()):
                    outs.add(check_stream(res, "sci", [nm] * n, S[nm] * n, fast=True))
                    res["evaluations"] += 1
            for a in shard[1]:
                for b in shard[1]:
                    if a != b:
                        outs.add(check_stream(res, "sci", [a, b] * 50, (S[a] + S[b]) * 50, fast=True))
                        res["evaluations"] += 1
        elif k == "scigroups":
            for st in range(256):
                for hi, mid, lo in ((0, 0, 0), (0x07, 0xFE, 0x30), (0xFF, 0xFF, 0xFF), (0, 0x03, 0xA0), (0, 0, 3), (1, 2, 6)):
                    for bad in (False, True):
                        outs.add(check_stream(res, "sci", [f"group-{st:02x}"], sf(st, hi, mid, lo, bad), fast=True))
                        res["evaluations"] += 1
        sample(res, {"sci_shard": [str(x)[:40] for x in shard[:3]], "alphabet": len(names)})
    res["states"] = len(outs)
    res["traces"] = res["evaluations"]
    res["distinct"] = {(shard[0], o) for o in outs}


def replay(case):
    from dalimc.aio.vloop import VLoop
    res = new_result()
    loop = VLoop()
    loop.enter()
    try:
        if "consumer_ops" in case:
            run_consumers(res, case["kind"], case["consumer_ops"])
        elif "other" in case:
            check_two_receivers(res, case["kind"], case["tokens"], bytes.fromhex(case["stream"]), case["other_tokens"], bytes.fromhex(case["other"]))
        else:
            check_stream(res, case["kind"], case["tokens"], bytes.fromhex(case["stream"]), two_cuts=len(case["stream"]) < 40)
    finally:
        loop.shutdown()
    return res["violations"]
