"""C02 - every constructible command or event decodes back to itself.

E1: exhaustive enumeration of (class, legal arguments) through the public constructors,
decoding the object's own frame with the real from_frame and comparing class, destination
(library ==), parameters, instance, event fields/data and text; plus an illegal-argument
alphabet for every argument position, which must be rejected with an exception.

Injectivity ("two different commands never share a frame") is implied, not sampled: if
decode(frame(c), context(c)) reproduces c exactly for every c of the enumerated space, two
different c with the same frame and the same decoding context cannot both be reproduced.
"""
from dalimc.core.runner import new_result, add_violation, observe, sample
from dalimc.spec import ref_codec as R
from . import _cmdspace as S

ID = "C02"
OPTIMISED_STRIDE = {"quick": 16, "thorough": 16}      # every k-th shard once more in an interpreter started with -O
TRACE_STRIDE = {"quick": 16, "thorough": 16}      # every k-th shard once more with logging enabled down to TRACE
BYTEORDER_STRIDE = {"quick": 20, "thorough": 20}      # every k-th shard once more with sys.byteorder reporting a big-endian host
LEVEL = "exploration"
ENGINE = "E1"
TECHNIQUE = "exhaustive enumeration of constructor argument space; construct -> frame -> real decoder -> structural and library-level equality"
RULE = ("all table rows x all destinations (object and plain-int forms) x parameters x instance bytes; all event classes x 5 "
        "schemes x field values x data (int and object forms); illegal alphabet {-1, max+1, 2^31, 1.5, 'x', None, wrong-family "
        "address} at every argument position; distinct = distinct (module, class, argument-shape) exercised")
ASSUMPTIONS = [
    "legal argument domains are those of the reference tables (dalimc.spec): 64 short / 16 or 32 group / broadcast / unaddressed, 195 instance bytes (0xFE excluded as stated), 0..15 / 0..255 parameters, 10-bit illuminance, 4 occupancy flags",
    "bool is accepted wherever int is (it is an int)",
    "rejection = any exception; no exception type is pinned",
    "the illegal alphabet is also run in an interpreter started with -O; other interpreter options (-OO, -X) are not varied",
]
CHAIN_STRIDE = {'quick': 6, 'thorough': 6}      # every k-th shard is re-run in chains inside one process (non-initial process states)
BOUNDS = {"quick": "all classes, all destinations, instance bytes at kind boundaries, 2-byte specials on a 20x20 grid, event fields/data at boundaries",
          "thorough": "full argument product (195 instance bytes, 256x256, all event fields, all 1024 illuminance values)"}


def shards(tier):
    out = []
    rows = list(S.all_rows())
    for i in range(0, len(rows), 6):
        out.append(("rows", i, i + 6, tier))
    out.append(("dapc",))
    for ec in S.EVENT_CLASSES:
        for sch in S.EVENT_SCHEMES:
            out.append(("event", ec[1], sch, tier, ec[0], ec[2]))
    out.append(("illegal",))
    out.append(("illegal-optimised",))
    out.append(("intlike",))
    out.append(("usercmds",))
    return out


def _eq_cmd(res, c, d, key, case):
    """Library-level comparison of the original and the decoded object."""
    if type(d) is not type(c):
        add_violation(res, f"C02:class:{key}", f"{case}: decoded as {type(d).__name__}", case)
        return
    for attr in ("destination", "instance"):
        if hasattr(c, attr):
            a, b = getattr(c, attr), getattr(d, attr, None)
            if not (a == b and b == a) or a != b:
                add_violation(res, f"C02:{attr}-not-equal:{key}", f"{case}: {attr} {a} vs decoded {b}", case)
    for attr in ("param", "power", "address", "broadcast", "param_1", "param_2"):
        if hasattr(c, attr):
            a, b = getattr(c, attr), getattr(d, attr, "<missing>")
            if a != b or type(a) is not type(b):
                add_violation(res, f"C02:{attr}:{key}", f"{case}: {attr} {a!r} vs decoded {b!r}", case)
    if str(c) != str(d):
        add_violation(res, f"C02:str:{key}", f"{case}: text {str(c)!r} vs decoded {str(d)!r}", case)
    if d.frame != c.frame:
        add_violation(res, f"C02:frame:{key}", f"{case}: frame differs after decode", case)


def roundtrip(res, desc, from_frame, int_dest=False):
    mod, name, args = desc
    key = f"{mod}.{name}"
    case = {"t": "desc", "desc": [mod, name, [list(a) if isinstance(a, tuple) else a for a in args]], "int_dest": int_dest}
    try:
        c = S.construct(desc, int_dest=int_dest)
    except Exception as e:
        add_violation(res, f"C02:construct-raises:{key}", f"{desc}: {e!r}", case)
        return
    try:
        d = from_frame(c.frame, devicetype=c.devicetype)
    except Exception as e:
        add_violation(res, f"C02:decode-raises:{key}", f"{desc}: {e!r}", case)
        return
    _eq_cmd(res, c, d, key, case)
    # structural comparison through the reference descriptor (independent of library ==)
    try:
        if R.describe(d) != desc:
            add_violation(res, f"C02:args:{key}", f"{desc}: decoded {R.describe(d)}", case)
    except Exception as e:
        add_violation(res, f"C02:describe:{key}", f"{desc}: {e!r}", case)


def event_roundtrip(res, mod, name, itype, sch, fields, data, form, from_frame):
    from dali.device.helpers import DeviceInstanceTypeMapper
    case = {"t": "event", "name": name, "scheme": sch, "fields": fields, "data": data, "form": form, "itype": itype, "mod": mod}
    try:
        c = S.construct_event(mod, name, fields, data, form, itype)
    except Exception as e:
        add_violation(res, f"C02:event-construct:{name}", f"{case}: {e!r}", case)
        return
    m = None
    if sch == "device_instance":
        m = DeviceInstanceTypeMapper()
        m.add_type(short_address=fields["short"], instance_number=fields["inum"], instance_type=itype)
    try:
        d = from_frame(c.frame, devicetype=c.devicetype, dev_inst_map=m)
    except Exception as e:
        add_violation(res, f"C02:event-decode-raises:{name}", f"{case}: {e!r}", case)
        return
    if type(d) is not type(c):
        add_violation(res, f"C02:event-class:{name}:{sch}", f"{case}: decoded as {type(d).__name__}", case)
        return
    for attr in ("short_address", "instance_number", "instance_group", "device_group", "instance_type", "event_data"):
        a, b = getattr(c, attr), getattr(d, attr)
        if a != b or (a is None) != (b is None):
            add_violation(res, f"C02:event-{attr}:{name}:{sch}", f"{case}: {attr} {a!r} vs decoded {b!r}", case)
    if str(c) != str(d) or repr(c) != repr(d):
        add_violation(res, f"C02:event-str:{name}", f"{case}: {c} vs {d}", case)
    if d.frame != c.frame:
        add_violation(res, f"C02:event-frame:{name}", f"{case}: frame differs", case)


# ----------------------------------------------------------------------------- illegal arguments

def illegal_probes():
    """(label, thunk) pairs; every thunk must raise."""
    from dali import address as A
    from dali.gear import general as gg, led, colour
    from dali.device import general as dg, pushbutton as pb, occupancy as oc, light as li
    BAD_INT = [-1, 2 ** 31, 1.5, "x", None]
    P = []

    import re

    def add(label, fn):
        # object reprs carry memory addresses; labels must be stable across processes
        P.append((re.sub(r"<dali\.address\.(\w+) object at 0x[0-9a-f]+>", r"\1", label), fn))
    # address / instance constructors
    for cls, mx in ((A.GearShort, 63), (A.DeviceShort, 63), (A.GearGroup, 15), (A.DeviceGroup, 31),
                    (A.InstanceNumber, 31), (A.InstanceGroup, 31), (A.InstanceType, 31),
                    (A.FeatureInstanceNumber, 31), (A.FeatureInstanceGroup, 31), (A.FeatureInstanceType, 31)):
        for v in BAD_INT + [mx + 1]:
            add(f"{cls.__name__}({v!r})", lambda cls=cls, v=v: cls(v))
    wrong_for_gear = [A.DeviceShort(1), A.DeviceGroup(1), A.DeviceBroadcast(), A.DeviceBroadcastUnaddressed(),
                      A.InstanceNumber(1), A.Address()]
    wrong_for_dev = [A.GearShort(1), A.GearGroup(1), A.GearBroadcast(), A.GearBroadcastUnaddressed(), 1, 0, 63,
                     A.InstanceNumber(1), A.Address()]
    gear_classes = [gg.Off, gg.QueryStatus, led.QueryFastFadeTime, colour.Activate]
    for cls in gear_classes:
        for v in BAD_INT + [64] + wrong_for_gear:
            add(f"{cls.__name__}(dest={v!r})", lambda cls=cls, v=v: cls(v))
        add(f"{cls.__name__}(dest,extra)", lambda cls=cls: cls(A.GearShort(1), 0))
    for cls in (gg.GoToScene, gg.SetScene, gg.AddToGroup, gg.RemoveFromGroup, gg.QuerySceneLevel, gg.RemoveFromScene):
        for v in BAD_INT + [16]:
            add(f"{cls.__name__}(param={v!r})", lambda cls=cls, v=v: cls(A.GearShort(1), v))
        for v in BAD_INT + [64] + wrong_for_gear:
            add(f"{cls.__name__}(dest={v!r},0)", lambda cls=cls, v=v: cls(v, 0))
        add(f"{cls.__name__}(dest) missing param", lambda cls=cls: cls(A.GearShort(1)))
    for v in BAD_INT + [256, "off", "Mask"]:
        add(f"DAPC(power={v!r})", lambda v=v: gg.DAPC(A.GearShort(1), v))
    for v in BAD_INT + [64] + wrong_for_gear:
        add(f"DAPC(dest={v!r})", lambda v=v: gg.DAPC(v, 1))
    for cls in (gg.DTR0, gg.DTR1, gg.DTR2, gg.EnableDeviceType, gg.SearchaddrH, gg.SearchaddrM, gg.SearchaddrL,
                gg.WriteMemoryLocation, gg.WriteMemoryLocationNoReply):
        for v in BAD_INT + [256]:
            add(f"{cls.__name__}({v!r})", lambda cls=cls, v=v: cls(v))
        add(f"{cls.__name__}()", lambda cls=cls: cls())
    for cls in (gg.Terminate, gg.Randomise, gg.Compare, gg.Withdraw, gg.Ping, gg.QueryShortAddress):
        add(f"{cls.__name__}(0)", lambda cls=cls: cls(0))
    for cls in (gg.ProgramShortAddress, gg.VerifyShortAddress):
        for v in [-1, 64, 2 ** 31, 1.5, "x", None, "mask", 255]:
            add(f"{cls.__name__}({v!r})", lambda cls=cls, v=v: cls(v))
    for v in [-1, 64, 2 ** 31, 1.5, "x"]:
        add(f"Initialise(address={v!r})", lambda v=v: gg.Initialise(address=v))
    add("Initialise(broadcast=True,address=3)", lambda: gg.Initialise(broadcast=True, address=3))
    # device side
    for cls in (dg.QueryDeviceStatus, dg.IdentifyDevice, dg.StartQuiescentMode):
        for v in [-1, 64, 2 ** 31, 1.5, "x", None] + wrong_for_dev:
            add(f"{cls.__name__}(dest={v!r})", lambda cls=cls, v=v: cls(v))
    for cls in (dg.SetEventFilter, dg.QueryInstanceType, pb.SetShortTimer, oc.QueryCatching, li.SetHysteresis):
        for v in [-1, 64, 1.5, "x", None] + wrong_for_dev:
            add(f"{cls.__name__}(dest={v!r},inst)", lambda cls=cls, v=v: cls(v, A.InstanceNumber(1)))
        for v in [0, 1, -1, 255, None, "x", 1.5, A.DeviceShort(0), A.GearShort(0), A.ReservedInstance(256), A.ReservedInstance(-1)]:
            add(f"{cls.__name__}(dest,inst={v!r})", lambda cls=cls, v=v: cls(A.DeviceShort(1), v))
        add(f"{cls.__name__}(dest) missing inst", lambda cls=cls: cls(A.DeviceShort(1)))
    for cls in (dg.DTR0, dg.Initialise, dg.SearchAddrH, dg.ProgramShortAddress, dg.VerifyShortAddress, dg.SendTestframe,
                dg.WriteMemoryLocation):
        for v in BAD_INT + [256]:
            add(f"device.{cls.__name__}({v!r})", lambda cls=cls, v=v: cls(v))
    for cls in (dg.DirectWriteMemory, dg.DTR1DTR0, dg.DTR2DTR1):
        for v in BAD_INT + [256]:
            add(f"device.{cls.__name__}({v!r},0)", lambda cls=cls, v=v: cls(v, 0))
            add(f"device.{cls.__name__}(0,{v!r})", lambda cls=cls, v=v: cls(0, v))
    for cls in (dg.Terminate, dg.Randomise, dg.Compare, dg.QueryShortAddress):
        add(f"device.{cls.__name__}(0)", lambda cls=cls: cls(0))
    # events
    for cls, dat in ((pb.ShortPress, {}), (oc.OccupancyEvent, {"data": 3}), (li.LightEvent, {"data": 5})):
        n = cls.__name__
        for v in [-1, 64, 2 ** 31, 1.5, "x", A.GearShort(1), A.DeviceGroup(1)]:
            add(f"{n}(short_address={v!r})", lambda cls=cls, v=v, dat=dat: cls(short_address=v, **dat))
            add(f"{n}(short_address={v!r},instance_number=1)", lambda cls=cls, v=v, dat=dat: cls(short_address=v, instance_number=1, **dat))
        for v in [-1, 32, 2 ** 31, 1.5, "x"]:
            add(f"{n}(instance_number={v!r})", lambda cls=cls, v=v, dat=dat: cls(instance_number=v, **dat))
            add(f"{n}(short_address=1,instance_number={v!r})", lambda cls=cls, v=v, dat=dat: cls(short_address=1, instance_number=v, **dat))
            add(f"{n}(device_group={v!r})", lambda cls=cls, v=v, dat=dat: cls(device_group=v, **dat))
            add(f"{n}(instance_group={v!r})", lambda cls=cls, v=v, dat=dat: cls(instance_group=v, **dat))
        add(f"{n}() no addressing", lambda cls=cls, dat=dat: cls(**dat))
        add(f"{n}(short+device_group)", lambda cls=cls, dat=dat: cls(short_address=1, device_group=1, **dat))
        add(f"{n}(short+instance_group)", lambda cls=cls, dat=dat: cls(short_address=1, instance_group=1, **dat))
        add(f"{n}(device_group+instance_number)", lambda cls=cls, dat=dat: cls(device_group=1, instance_number=1, **dat))
        add(f"{n}(device_group+instance_group)", lambda cls=cls, dat=dat: cls(device_group=1, instance_group=1, **dat))
        add(f"{n}(instance_group+instance_number)", lambda cls=cls, dat=dat: cls(instance_group=1, instance_number=1, **dat))
    for v in [-1, 1024, 2 ** 31, 1.5, "x", None]:
        add(f"LightEvent(data={v!r})", lambda v=v: li.LightEvent(instance_number=1, data=v))
    for v in [-1, 16, 1023, 1024, 2 ** 31, 1.5, "x", None, (True, False)]:
        add(f"OccupancyEvent(data={v!r})", lambda v=v: oc.OccupancyEvent(instance_number=1, data=v))
    return P


def run_shard(shard):
    from dali.command import from_frame
    res = new_result()
    k = shard[0]
    if k == "rows":
        rows = list(S.all_rows())[shard[1]:shard[2]]
        for tab, r in rows:
            n = 0
            for desc in S.row_descriptors(tab, r, shard[3]):
                roundtrip(res, desc, from_frame)
                n += 1
                if tab == "GEAR_STD" and desc[2][0][0] == "short":
                    roundtrip(res, desc, from_frame, int_dest=True)
                    n += 1
            res["evaluations"] += n
            res["distinct"].add((r[0], r[1], tab))
        sample(res, {"rows": [f"{r[0]}.{r[1]}" for _, r in rows]})
    elif k == "dapc":
        from dali.gear.general import DAPC
        for a in R.ALL_GEAR_ADDRS:
            for p in range(256):
                roundtrip(res, ("gear.general", "DAPC", (a, p)), from_frame)
                res["evaluations"] += 1
            if a[0] == "short":
                for p in (0, 1, 254, 255):
                    roundtrip(res, ("gear.general", "DAPC", (a, p)), from_frame, int_dest=True)
            for word, p in (("OFF", 0), ("MASK", 255)):
                c = DAPC(R.lib_mkaddr(a, "gear"), word)
                d = from_frame(c.frame)
                if type(d) is not DAPC or d.power != p or str(d) != str(c) or not d.destination == c.destination:
                    add_violation(res, "C02:dapc-word", f"DAPC({a},{word}) decodes to {d}", {"t": "dapc"})
        res["distinct"].add(("gear.general", "DAPC"))
        sample(res, {"dapc": "82 destinations x 256 levels + OFF/MASK + int destinations"})
    elif k == "event":
        _, name, sch, tier = shard[:4]
        mod, itype, code = shard[4], shard[5], None
        if name != "UnknownEvent":
            mod, _, itype, code = next(e for e in S.EVENT_CLASSES if e[1] == name)
        for fields in S.event_field_space(sch, tier):
            for data in S.event_data_space(name, tier):
                event_roundtrip(res, mod, name, itype, sch, fields, data, "int", from_frame)
                res["evaluations"] += 1
                if name == "OccupancyEvent" or (fields.get("short") is not None and data in (None, 0, 1023)):
                    event_roundtrip(res, mod, name, itype, sch, fields, data, "obj", from_frame)
                    res["evaluations"] += 1
                    if name == "OccupancyEvent":
                        event_roundtrip(res, mod, name, itype, sch, fields, data, "objlit", from_frame)
                        res["evaluations"] += 1
        res["distinct"].add((mod, name, sch))
        sample(res, {"event": name, "scheme": sch})
    elif k == "illegal":
        for i, (label, fn) in enumerate(illegal_probes()):
            res["evaluations"] += 1
            try:
                obj = fn()
            except Exception as e:
                res["distinct"].add(("illegal", type(e).__name__))
                continue
            fr = getattr(obj, "frame", None)
            add_violation(res, f"C02:illegal-accepted:{label.split('(')[0]}",
                          f"{label} was accepted" + (f" and encoded as {fr}" if fr is not None else ""),
                          {"t": "illegal", "idx": i, "label": label})
        sample(res, {"illegal_probes": len(illegal_probes()), "examples": [l for l, _ in illegal_probes()[:5]]})
    elif k == "usercmds":
        # an application that declares command classes of its own the documented way ("If a command needs EnableDeviceType(foo)
        # to be sent first, override devicetype to foo"): they decode back to themselves under their device type, and every
        # library command with the same opcode still decodes to itself.  Declared in a forked child: registries stay clean.
        from dalimc.core.preempt import _in_fork

        def child():
            from dali.gear import general as gg, led, colour
            from dali.address import GearShort, GearBroadcast
            probs = []

            class VendorIdentifyChannel(gg._StandardCommand):
                devicetype = 66
                _cmdval = 0xE0

            class QueryExtendedVersionNumber(gg.QueryExtendedVersionNumberMixin, gg._StandardCommand):
                devicetype = 66

            class VendorSetChannel(gg._StandardCommand):
                devicetype = 67
                _cmdval = 0xE2
                _hasparam = False
                sendtwice = True
            n = 0
            for cls in (VendorIdentifyChannel, QueryExtendedVersionNumber, VendorSetChannel):
                for dest in (GearShort(0), GearShort(63), GearBroadcast()):
                    c = cls(dest)
                    d = from_frame(c.frame, devicetype=c.devicetype)
                    n += 1
                    if type(d) is not cls or str(d) != str(c) or d.frame != c.frame or not (d.destination == c.destination):
                        probs.append(f"user-declared {cls.__name__} (device type {cls.devicetype}) {c}: frame {c.frame} decodes under its own device type as {type(d).__module__}.{type(d).__name__} {d}")
            lib = [gg.QueryExtendedVersionNumber, led.QueryExtendedVersionNumber, colour.QueryExtendedVersionNumber, led.ReferenceSystemPower,
                   colour.SetTemporaryXCoordinate, led.SelectDimmingCurve, colour.Activate, gg.QueryStatus]
            for cls in lib:
                for dest in (GearShort(3), GearBroadcast()):
                    c = cls(dest)
                    d = from_frame(c.frame, devicetype=c.devicetype)
                    n += 1
                    if type(d) is not cls or str(d) != str(c):
                        probs.append(f"after user command classes were declared: library {cls.__module__}.{cls.__name__} {c} decodes as {type(d).__module__}.{type(d).__name__} {d}")
            for v, dt in ((0x07E0, 0), (0x07E2, 0), (0x07E0, 6 if False else 1), (0x07E0, 67), (0x07E2, 66)):
                d = from_frame(FFX(16, v), devicetype=dt)
                n += 1
                exp = R.decode16(v, dt)
                if R.describe(d) != exp and not (type(d).__name__ == "UnknownGearCommand" and exp[1] == "UnknownGearCommand"):
                    probs.append(f"after user command classes were declared: frame {v:#06x} under device type {dt} decodes as {type(d).__name__}, reference {exp[1]}")
            # an EVENT class the application declares for an instance type the library does not implement (the way the library
            # declares LightEvent) - AFTER traffic of that type has already been decoded as the generic unknown event
            from dali.device import general as dg
            from dali.device.helpers import DeviceInstanceTypeMapper
            early = dg.UnknownEvent(instance_type=2, short_address=5, data=0x155)
            seen = from_frame(early.frame)
            n += 1
            if type(seen) is not dg.UnknownEvent or seen.frame != early.frame:
                probs.append(f"event of the unimplemented instance type 2 {early!r} decodes as {seen!r}")

            class PositionReport(dg._Event):
                _instance_type = 2
                _event_info = 0

                @classmethod
                def from_event_data(cls, event_data):
                    return PositionReport

                @property
                def event_data(self):
                    return self._event_info

                def _set_event_data(self, set_data, set_frame):
                    if not isinstance(set_data, int):
                        raise ValueError("data must be an int")
                    self._event_info = set_data
                    set_frame[9:0] = set_data
            m = DeviceInstanceTypeMapper()
            m.add_type(short_address=5, instance_number=3, instance_type=2)
            for kw in (dict(short_address=5, data=0x2AA), dict(short_address=5, instance_number=3, data=0x2AA), dict(device_group=7, data=1),
                       dict(instance_number=3, data=1023), dict(instance_group=31, data=0)):
                ev = PositionReport(**kw)
                back = from_frame(ev.frame, dev_inst_map=m)
                n += 1
                if type(back) is not PositionReport or repr(back) != repr(ev) or back.frame != ev.frame:
                    probs.append(f"user-declared event class for instance type 2 (declared after a type-2 frame had been decoded): {ev!r} decodes as {back!r}")
            from dali.device import light
            ev = light.LightEvent(short_address=5, data=77)
            back = from_frame(ev.frame)
            n += 1
            if type(back) is not light.LightEvent or repr(back) != repr(ev):
                probs.append(f"after a user event class was declared: library {ev!r} decodes as {back!r}")
            return n, probs
        from dali.frame import ForwardFrame as FFX
        out = _in_fork(child)
        if not out:
            add_violation(res, "C02:usercmds:raises", "declaring / decoding user command classes failed in the child process", {"t": "usercmds"})
        else:
            res["evaluations"] += out[0]
            for p_ in out[1][:6]:
                add_violation(res, "C02:usercmds", p_, {"t": "usercmds"})
            res["distinct"].add(("usercmds", len(out[1]) == 0))
        sample(res, {"user_declared_command_classes": 3})
    elif k == "intlike":
        # integer parameters given as IntEnum members - the library's own selectors (which its sequences pass to DTR0 / DTR2) and
        # a user IntEnum: same frame, same class, same text as with the plain integer
        import enum
        from dali.gear import colour

        class Labelled(int):
            def __repr__(self):
                return f"<Labelled {int(self)}>"
            __str__ = __repr__
        enum_cache = {}

        def as_enum(v):
            if v not in enum_cache:
                enum_cache[v] = enum.IntEnum(f"E{v}", {"member": v}).member
            return enum_cache[v]
        libenum = {int(m): m for m in colour.QueryColourValueDTR}
        libenum2 = {int(m): m for m in colour.StoreColourTemperatureTcLimitDTR2}
        # (bool and int subclasses that override __str__ / __repr__ print differently by their own choice: not compared)
        wrappers = [("IntEnum", as_enum), ("library-enum", lambda v: libenum.get(v, libenum2.get(v, as_enum(v))))]
        n = 0
        for tab, r in S.all_rows():
            descs = list(S.row_descriptors(tab, r, "quick"))
            picks = [d for d in descs if any(isinstance(a, int) for a in d[2])]
            picks = picks[:3] + picks[len(picks) // 2:len(picks) // 2 + 2] + picks[-3:]
            for desc in picks:
                for wname, wrap in wrappers:
                    args = tuple(wrap(a) if isinstance(a, int) and not isinstance(a, bool) else a for a in desc[2])
                    if all(a is b for a, b in zip(args, desc[2])):
                        continue
                    case = {"t": "intlike", "desc": [desc[0], desc[1], [list(a) if isinstance(a, tuple) else int(a) if isinstance(a, int) else a for a in desc[2]]], "wrapper": wname}
                    n += 1
                    try:
                        plain = S.construct(desc)
                        c = S.construct((desc[0], desc[1], args))
                        d = from_frame(c.frame, devicetype=c.devicetype)
                    except Exception as e:
                        add_violation(res, f"C02:intlike:raises:{desc[0]}.{desc[1]}", f"{desc} with {wname} parameters: {e!r}", case)
                        continue
                    if c.frame != plain.frame or type(d) is not type(c) or str(c) != str(d) or str(c) != str(plain) or not (d.frame == c.frame):
                        add_violation(res, f"C02:intlike:{desc[0]}.{desc[1]}", f"{desc[1]} built with {wname} parameters {args}: text {str(c)!r}, decoded text {str(d)!r}, "
                                      f"plain-int text {str(plain)!r}, frames {c.frame} / {plain.frame}", case)
                    res["distinct"].add(("intlike", wname, tab))
        for a in (R.ALL_GEAR_ADDRS[0], R.ALL_GEAR_ADDRS[-1]):
            for p in (0, 1, 254, 255):
                for wname, wrap in wrappers:
                    from dali.gear.general import DAPC
                    c, plain = DAPC(R.lib_mkaddr(a, "gear"), wrap(p)), DAPC(R.lib_mkaddr(a, "gear"), p)
                    d = from_frame(c.frame)
                    n += 1
                    if c.frame != plain.frame or str(c) != str(d) or str(c) != str(plain) or type(d) is not DAPC:
                        add_violation(res, "C02:intlike:gear.general.DAPC", f"DAPC({a}, {wname} {p}): text {str(c)!r}, decoded {str(d)!r}, plain {str(plain)!r}",
                                      {"t": "intlike", "desc": ["gear.general", "DAPC", [list(a), p]], "wrapper": wname})
        res["evaluations"] += n
        sample(res, {"int_like_parameters": n, "wrappers": [w for w, _ in wrappers]})
    elif k == "illegal-optimised":
        # the same illegal alphabet in an interpreter started with -O (assert statements compiled out): rejection
        # "with an exception" must not hinge on an interpreter option
        import json
        import os
        import subprocess
        import sys
        from dalimc.core import repo
        verif = os.path.dirname(os.path.dirname(os.path.dirname(os.path.abspath(__file__))))
        script = ("import sys, json\n"
                  "assert False, 'not optimised'\n"
                  "from dalimc.core import repo\n"
                  "repo.setup()\n"
                  "from dalimc.checks import c02\n"
                  "out = []\n"
                  "for i, (label, fn) in enumerate(c02.illegal_probes()):\n"
                  "    try:\n"
                  "        obj = fn()\n"
                  "    except Exception as e:\n"
                  "        continue\n"
                  "    out.append([i, label, str(getattr(obj, 'frame', None))])\n"
                  "json.dump({'n': len(c02.illegal_probes()), 'accepted': out}, sys.stdout)\n")
        env = {"PYTHONPATH": verif, "VERIF_REPO": repo.REPO, "PATH": "/usr/bin:/bin", "PYTHONHASHSEED": "0", "PYTHONDONTWRITEBYTECODE": "1"}
        p = subprocess.run([sys.executable, "-O", "-c", script], capture_output=True, text=True, env=env, timeout=300)
        if p.returncode != 0:
            add_violation(res, "C02:illegal-optimised:fails", f"probe run under python -O failed: {p.stderr[-400:]}", {"t": "illegal-optimised", "label": None})
        else:
            o = json.loads(p.stdout)
            res["evaluations"] += o["n"]
            for i, label, fr in o["accepted"]:
                add_violation(res, f"C02:illegal-accepted-under-O:{label.split('(')[0]}", f"{label} was accepted by an interpreter started with -O (frame {fr})",
                              {"t": "illegal-optimised", "idx": i, "label": label})
            res["distinct"].add(("illegal-optimised", o["n"]))
        sample(res, {"illegal_probes_under_python_O": res["evaluations"]})
    return res


def replay(case):
    from dali.command import from_frame
    res = new_result()
    t = case["t"]
    if t == "desc":
        mod, name, args = case["desc"]
        args = tuple(tuple(a) if isinstance(a, list) else a for a in args)
        roundtrip(res, (mod, name, args), from_frame, case.get("int_dest", False))
    elif t == "event":
        event_roundtrip(res, case["mod"], case["name"], case["itype"], case["scheme"], case["fields"], case["data"], case["form"], from_frame)
    elif t == "dapc":
        return run_shard(("dapc",))["violations"]
    elif t == "usercmds":
        return run_shard(("usercmds",))["violations"]
    elif t == "intlike":
        return [v for v in run_shard(("intlike",))["violations"] if v["case"]["desc"][:2] == case["desc"][:2]]
    elif t == "illegal-optimised":
        vs = run_shard(("illegal-optimised",))["violations"]
        return [v for v in vs if v["case"]["label"] == case["label"]]
    else:
        vs = run_shard(("illegal",))["violations"]
        return [v for v in vs if v["case"]["label"] == case["label"]]
    return res["violations"]
