"""C07 - commissioning terminates and assigns distinct, permitted short addresses.

E2: the real Commissioning generator closed with a population of gear102 specification units.
Random-address draws are environment DATA choices (enumerated completely over a small
alphabet, every round, every unit that is in initialisation - withdrawn units re-draw too, as
IEC 62386-102 9.14 prescribes); faulty units are deviations (bound 1).
"""
import itertools

from dalimc.core.runner import new_result, add_violation, observe, sample
from dalimc.core.explorer import explore
from dalimc.env import gear102 as G
from . import _partner as P

ID = "C07"
OPTIMISED_STRIDE = {"quick": 10, "thorough": 20}      # every k-th shard once more in an interpreter started with -O
TRACE_STRIDE = {"quick": 10, "thorough": 20}      # every k-th shard once more with logging enabled down to TRACE
CHAIN_STRIDE = {'quick': 12, 'thorough': 40}      # every k-th shard is re-run in chains inside one process (non-initial process states)
LEVEL = "model_checking"
ENGINE = "E2"
TECHNIQUE = "stateless exploration of the real Commissioning generator against a population of spec-model gear: all random-draw histories within R rounds (slice A) and all configurations x scripted draw patterns (slice B)"
RULE = ("slice A: fixed configurations x ALL draw histories over alphabet A within R rounds (last round clash-free among "
        "units still searching); slice B: all populations n<=N with pre-existing addresses from {None,0,1,63} (multisets) x 7 "
        "permitted-address options x readdress x dry_run x 11 draw patterns; fault menu {unit ignores PROGRAM SHORT ADDRESS, unit "
        "answers VERIFY with NO} per unit; 64/65/70-unit populations; states = distinct (configuration, draw history) leaves; "
        "transitions = commands executed")
ASSUMPTIONS = [
    "gear model: IEC 62386-102 9.14/11.7 - RANDOMISE and PROGRAM SHORT ADDRESS act on every unit whose initialisationState is not DISABLED (i.e. also on WITHDRAWN units); COMPARE/WITHDRAW only on ENABLED units",
    "units with the same initial short address and fault flags are interchangeable (bus merge rule is symmetric), so populations are enumerated as multisets",
    "a failure raised as ProgramShortAddressFailure ends the run; the statement does not require TERMINATE on that path",
]
SANITY = ["runs_with_clash_round", "runs_with_withdraw"]
BOUNDS = {"quick": "slice A: n<=3, |A|=4, R=2; slice B: n<=3; faults on n<=2",
          "thorough": "slice A: n<=3 with |A|=6, R=3 and n=4 with |A|=4, R=2; slice B: n<=4; faults on n<=3"}

A4 = [0, 1, 0x800000, 0xFFFFFF]
A6 = [0, 1, 0x7FFFFF, 0x800000, 0xFFFFFE, 0xFFFFFF]
AVAIL = [None, [], [0], [1, 0], [63], [0, 1], [5, 6, 7]]
PRE = [None, 0, 1, 63]


class DrawBus(G.Bus):
    """Bus whose random draws come from the chooser; the final allowed round is clash-free
    among units that are still ENABLED (statement: 'clashing units eventually draw different
    values'); WITHDRAWN units always draw freely."""

    def __init__(self, units, chooser, alphabet, rounds, script=None, exact=None):
        super().__init__(units, chooser, alphabet)
        self.exact = exact          # recorded draw history: per round, values in draw order
        self.rounds = rounds
        self.round = 0
        self.drawn_this_round = []
        self.history = []
        self.script = script        # scripted patterns: list of per-round lists

    def execute(self, cmd):
        if type(cmd).__name__ == "Randomise":
            self.round += 1
            self.drawn_this_round = []
            self.history.append([])
        return super().execute(cmd)

    def draw(self, unit):
        idx = self.units.index(unit)
        if self.exact is not None:
            v = self.exact[self.round - 1][len(self.history[-1])]
        elif self.script is not None:
            rnd = self.script[min(self.round, len(self.script)) - 1]
            v = rnd[idx % len(rnd)]
            if self.round > len(self.script):
                v = (v + 7919 * idx + 13 * self.round) & 0xFFFFFF      # later rounds: all distinct
        else:
            menu = list(self.draw_alphabet)
            if self.round >= self.rounds and unit.init_state == G.ENABLED:
                menu = [m for m in menu if m not in self.drawn_this_round]
            k = self.chooser.choose(len(menu), f"r{self.round}:u{idx}", costs=[0] * len(menu))
            v = menu[k]
        if unit.init_state == G.ENABLED:
            self.drawn_this_round.append(v)
        self.history[-1].append(v)
        return v


def judge(res, cfg, units0, units, kind, val, n, bus, key_extra=""):
    """Invariants on the final spec state."""
    from dali.exceptions import ProgramShortAddressFailure
    pre, avail, readdress, dry_run, faults = cfg["pre"], cfg["avail"], cfg["readdress"], cfg["dry_run"], cfg.get("faults", [])
    case = dict(cfg, history=bus.history, t="run")
    nunits = len(units)
    if bus.round >= 2:
        observe(res, "runs_with_clash_round")
    if any(u.init_state == G.WITHDRAWN for u in units) or any(d[1] == "Withdraw" for d, a in bus.log):
        observe(res, "runs_with_withdraw")
    bound = 80 + max(1, bus.round) * (nunits + 1) * (25 * 8 + 15)   # <= 2 probes x 4 commands per search level
    tag = ("readdress" if readdress else "new") + ("-dry" if dry_run else "")
    if kind == "cap" or n > bound:
        add_violation(res, f"C07:unbounded:{tag}", f"{cfg}: {n} commands (bound {bound})", case)
        return "cap"
    participants = [i for i in range(nunits) if readdress or pre[i] is None]
    faulty_part = [i for i in participants if i < len(faults) and faults[i]]
    permitted = list(range(64)) if avail is None else list(avail)
    if not readdress:
        permitted = [a for a in permitted if a not in [p for p in pre if p is not None]]
    if kind == "raise":
        if isinstance(val, ProgramShortAddressFailure) and faulty_part and not dry_run and permitted:
            return "failure-reported"
        add_violation(res, f"C07:raised:{tag}:{type(val).__name__}", f"{cfg} draws {bus.history}: raised {val!r}", case)
        return "raise"
    if faulty_part and not dry_run and permitted:
        # a participating unit that cannot store / verify while addresses are handed out
        # must surface as ProgramShortAddressFailure (it is reached unless addresses ran out first)
        idx_ok = len(permitted) >= len(participants)
        if idx_ok:
            add_violation(res, f"C07:fault-silently-skipped:{tag}", f"{cfg}: faulty unit, but the sequence returned normally; shorts {[u.short for u in units]}", case)
            return "fault-missed"
    last = bus.log[-1][0][1] if bus.log else None
    if last != "Terminate" or any(u.init_state != G.DISABLED for u in units):
        add_violation(res, f"C07:not-terminated:{tag}", f"{cfg}: last command {last}, states {[u.init_state for u in units]}", case)
    shorts = [u.short for u in units]
    if dry_run:
        if shorts != list(pre):
            add_violation(res, f"C07:dry-run-changed:{tag}", f"{cfg}: short addresses {pre} -> {shorts}", case)
        return "dry"
    nonpart = [i for i in range(nunits) if i not in participants]
    for i in nonpart:
        if units[i].short != pre[i]:
            add_violation(res, f"C07:non-participant-changed:{tag}", f"{cfg} draws {bus.history}: unit {i} {pre[i]} -> {units[i].short}", case)
    got = [units[i].short for i in participants if not (i < len(faults) and faults[i])]
    assigned = [a for a in got if a is not None]
    if len(set(assigned)) != len(assigned):
        add_violation(res, f"C07:duplicate-address:{tag}", f"{cfg} draws {bus.history}: participants ended with short addresses {got}", case)
    if any(a not in permitted for a in assigned):
        add_violation(res, f"C07:address-not-permitted:{tag}", f"{cfg} draws {bus.history}: assigned {assigned}, permitted {permitted[:8]}", case)
    inuse = [pre[i] for i in nonpart if pre[i] is not None]
    if any(a in inuse for a in assigned):
        add_violation(res, f"C07:address-in-use:{tag}", f"{cfg}: assigned {assigned}, in use {inuse}", case)
    healthy_part = len(got)
    want = min(healthy_part, len(permitted))
    if not faulty_part and len(assigned) != want:
        add_violation(res, f"C07:unit-left-unaddressed:{tag}", f"{cfg} draws {bus.history}: {len(assigned)} of {healthy_part} participants addressed, {len(permitted)} addresses permitted; shorts {shorts}", case)
    return "ok"


def run_one(cfg, chooser=None, alphabet=None, rounds=2, script=None, exact=None):
    from dali.sequences import Commissioning
    pre = cfg["pre"]
    units = []
    for i, p in enumerate(pre):
        u = G.Gear(short=p, groups={i % 16})
        f = cfg.get("faults", [])
        if i < len(f) and f[i] == "ignore_program":
            u.ignore_program = True
        elif i < len(f) and f[i] == "verify_no":
            u.verify_no = True
        units.append(u)
    bus = DrawBus(units, chooser, alphabet, rounds, script, exact)
    avail = cfg["avail"]
    # the permitted set is "an iterable of addresses": every spelling must behave like the list (default spelling: list)
    spell = {"list": list, "tuple": tuple, "set": set, "frozenset": frozenset, "iter": lambda a: iter(list(a)),
             "generator": lambda a: (x for x in list(a)), "dict-keys": lambda a: dict.fromkeys(a).keys(), "range-like": list}[cfg.get("spelling", "list")]
    seq = Commissioning(available_addresses=None if avail is None else spell(avail),
                        readdress=cfg["readdress"], dry_run=cfg["dry_run"])
    cap = 80 + (rounds + 3) * (len(units) + 1) * (25 * 8 + 15) + 50
    kind, val, n = G.run_sequence(seq, bus, cap)
    return units, bus, kind, val, n


def slice_a_configs(tier):
    cfgs = []
    for n in ((2, 3) if tier == "quick" else (2, 3, 4)):
        for readdress in (False, True):
            pres = [[None] * n, [0] + [None] * (n - 1), [1, 1] + [None] * (n - 2)]
            for pre in pres:
                for avail in (None, [0], [1, 0]):
                    if not readdress and all(p is not None for p in pre):
                        continue
                    cfgs.append(dict(pre=pre, avail=avail, readdress=readdress, dry_run=False))
    return cfgs


PATTERNS = {
    "ascending": [[0x000010, 0x400000, 0x800000, 0xC00000]],
    "descending": [[0xFFFFFE, 0x800001, 0x400000, 0x000001]],
    "pair-clash-then-distinct": [[5, 9, 9, 12], [20, 21, 22, 23]],
    "triple-clash": [[7, 7, 7, 7], [3, 2, 1, 0]],
    "extremes": [[0x000000, 0xFFFFFF, 0x000001, 0xFFFFFE]],
    "redraw-equals-withdrawn": [[5, 9, 9, 9], [7, 7, 8, 6]],
    "two-clash-rounds": [[4, 4, 4, 4], [6, 6, 9, 9], [1, 2, 3, 4]],
    "all-ones-clash": [[0xFFFFFF, 0xFFFFFF, 0, 0], [0xFFFFFF, 0, 1, 2]],
    # neighbours at both ends of the 24-bit range (the search is entered with low == high after the last-but-one address)
    "top-neighbours": [[0xFFFFFE, 0xFFFFFF, 0xFFFFFD, 0x000000]],
    "bottom-neighbours": [[0x000001, 0x000000, 0x000002, 0xFFFFFF]],
    "top-clash-then-neighbours": [[0xFFFFFF, 0xFFFFFF, 0xFFFFFE, 0xFFFFFE], [0xFFFFFE, 0xFFFFFF, 0xFFFFFD, 0xFFFFFC]],
}


def _partner_commissioning():
    from dali.sequences import Commissioning
    units = [G.Gear(short=None, groups={i}) for i in range(2)]
    bus = DrawBus(units, None, None, 3, script=[[9, 9], [21, 20]])
    return Commissioning(available_addresses=[7, 8, 9]), bus, lambda: [u.short for u in units]


def _partner_readdress():
    from dali.sequences import Commissioning
    units = [G.Gear(short=p, groups={i}) for i, p in enumerate((5, 5))]
    bus = DrawBus(units, None, None, 3, script=PATTERNS["descending"])
    return Commissioning(readdress=True), bus, lambda: [u.short for u in units]


PARTNERS = [("Commissioning(available_addresses=[7, 8, 9]) of two new units that clash once", _partner_commissioning),
            ("Commissioning(readdress=True) of two units", _partner_readdress)]
PARTNERED = [("B", 2, True, False), ("B", 1, False, False), ("F", 1)]


def shards(tier):
    out = []
    out += P.partner_shards(PARTNERS, [0, 1, 3, 9, 40, "alt"])
    for byte in (0x00, 0x5A, 0xFE):
        for n in (2, 3):
            out.append(("collision", byte, n))
    cfgs = slice_a_configs(tier)
    for i, c in enumerate(cfgs):
        n = len(c["pre"])
        if tier == "quick":
            out.append(("A", i, 4, 2, None, tier))
        elif n <= 3:
            for first in range(6):
                out.append(("A", i, 6, 3 if n <= 2 else 2, first, tier))
            if n == 3:
                out.append(("A", i, 4, 3, None, tier))
        else:
            for first in range(4):
                out.append(("A", i, 4, 2, first, tier))
    N = 3 if tier == "quick" else 4
    for n in range(0, N + 1):
        for rd in (False, True):
            for dry in (False, True):
                out.append(("B", n, rd, dry))
    for n in ((1, 2) if tier == "quick" else (1, 2, 3)):
        out.append(("F", n))
    for n in (64, 65, 70):
        out.append(("BIG", n))
    out.append(("longclash",))
    return out


def run_collision(shard):
    """Slice B again with another data byte in the framing-error frame that several simultaneous answers produce."""
    from dalimc.core.runner import jsonable
    _, byte, n = shard
    agg = new_result()
    old = G.COLLISION_BYTE
    G.COLLISION_BYTE = byte
    try:
        for sub in (("B", n, False, False), ("B", n, True, False), ("B", n, False, True)):
            r = run_shard(sub)
            for k in ("evaluations", "states", "transitions", "traces", "distinct_count"):
                agg[k] += r[k]
            agg["distinct"] |= r["distinct"]
            for v in r["violations"]:
                v["key"] += ":collision-byte"
                v["message"] = f"[several units answering at once reported as a framing error with data byte {byte:#04x}] " + v["message"]
                v["case"] = {"__shard__": jsonable(shard)}
                if not any(x["key"] == v["key"] for x in agg["violations"]):
                    agg["violations"].append(v)
            for k, c in r["observations"].items():
                agg["observations"][k] = agg["observations"].get(k, 0) + c
    finally:
        G.COLLISION_BYTE = old
    agg["distinct"].add(("collision", byte, n))
    sample(agg, {"collision_data_byte": byte, "units": n})
    return agg


def run_shard(shard):
    if shard[0] == "collision":
        return run_collision(shard)
    if shard[0] == "partnered":
        import sys
        return P.run_partnered(sys.modules[__name__], shard, PARTNERS, PARTNERED)
    res = new_result()
    k = shard[0]
    if k == "A":
        _, ci, asz, rounds, first, _tier = shard
        cfg = slice_a_configs(shard[5])[ci]
        alphabet = A4 if asz == 4 else A6
        outcomes = {}

        def run(ch):
            units, bus, kind, val, n = run_one(cfg, ch, alphabet, rounds)
            return units, bus, kind, val, n
        root = () if first is None else (first,)
        for ch, obs in explore(run, bound=0, root=root):
            units, bus, kind, val, n = obs
            r = judge(res, cfg, None, units, kind, val, n, bus)
            res["evaluations"] += 1
            res["states"] += 1
            res["traces"] += 1
            res["transitions"] += n
            res["distinct"].add((r, tuple(u.short for u in units), bus.round))
        sample(res, {"slice": "A", "config": cfg, "alphabet": [hex(a) for a in alphabet], "rounds": rounds})
    elif k == "longclash":
        # "clashing units eventually draw different values": streaks of 3, 40, 150 and 300 clash rounds before they do
        for streak in (3, 40, 150, 300):
            for pre, rd, dry in (([None, None], False, False), ([5, None, 5], True, False), ([None, None], False, True), ([None, 1, None], False, False)):
                n = len(pre)
                script = [[7] * n for _ in range(streak)] + [[3 + i for i in range(n)]]
                cfg = dict(pre=list(pre), avail=[3, 4, 9], readdress=rd, dry_run=dry, pattern=f"clash-x{streak}")
                units, bus, kind, val, cnt = run_one(cfg, None, None, streak + 3, script)
                r = judge(res, cfg, None, units, kind, val, cnt, bus)
                res["evaluations"] += 1
                res["states"] += 1
                res["traces"] += 1
                res["transitions"] += cnt
                res["distinct"].add((r, "longclash", streak))
        sample(res, {"clash_streaks": [3, 40, 150, 300]})
    elif k == "B":
        _, n, rd, dry = shard
        for pre in itertools.combinations_with_replacement(PRE, n):
            pre = sorted(pre, key=lambda p: (p is not None, p or 0))
            for avail in AVAIL:
                for pname, script in PATTERNS.items():
                    cfg = dict(pre=list(pre), avail=avail, readdress=rd, dry_run=dry, pattern=pname)
                    units, bus, kind, val, cnt = run_one(cfg, None, None, 9, script)
                    r = judge(res, cfg, None, units, kind, val, cnt, bus)
                    res["evaluations"] += 1
                    res["states"] += 1
                    res["traces"] += 1
                    res["transitions"] += cnt
                    res["distinct"].add((r, tuple(u.short for u in units), pname))
                # the same run with the permitted set spelled in every other way an iterable can be
                if avail is not None:
                    for spelling in ("tuple", "set", "frozenset", "iter", "generator", "dict-keys"):
                        cfg = dict(pre=list(pre), avail=avail, readdress=rd, dry_run=dry, pattern="ascending", spelling=spelling)
                        units, bus, kind, val, cnt = run_one(cfg, None, None, 9, PATTERNS["ascending"])
                        judge(res, cfg, None, units, kind, val, cnt, bus)
                        res["evaluations"] += 1
                        res["transitions"] += cnt
        sample(res, {"slice": "B", "n": n, "readdress": rd, "dry_run": dry, "patterns": list(PATTERNS)})
    elif k == "F":
        n = shard[1]
        for pre in itertools.product([None, 1], repeat=n):
            for fi in range(n):
                for f in ("ignore_program", "verify_no"):
                    for rd in (False, True):
                        for avail in (None, [5, 6, 7]):
                            for pname in ("ascending", "pair-clash-then-distinct"):
                                faults = [None] * n
                                faults[fi] = f
                                cfg = dict(pre=list(pre), avail=avail, readdress=rd, dry_run=False, faults=faults, pattern=pname)
                                units, bus, kind, val, cnt = run_one(cfg, None, None, 9, PATTERNS[pname])
                                r = judge(res, cfg, None, units, kind, val, cnt, bus)
                                res["evaluations"] += 1
                                res["states"] += 1
                                res["traces"] += 1
                                res["transitions"] += cnt
                                res["distinct"].add((r, f, rd))
        sample(res, {"slice": "faults", "n": n})
    elif k == "BIG":
        n = shard[1]
        for avail in (None, [5, 6, 7]):
            for rd in (True, False):
                pre = [None] * n if not rd else [(i % 64) for i in range(n)]
                script = [[(i * 0x3A7F1 + 5) & 0xFFFFFF for i in range(n)]]
                cfg = dict(pre=pre, avail=avail, readdress=rd, dry_run=False, pattern="big")
                units, bus, kind, val, cnt = run_one(cfg, None, None, 9, script)
                r = judge(res, cfg, None, units, kind, val, cnt, bus)
                res["evaluations"] += 1
                res["states"] += 1
                res["traces"] += 1
                res["transitions"] += cnt
                res["distinct"].add((r, n, rd, str(avail)))
        sample(res, {"slice": "big", "units": n})
    return res


def replay(case):
    """Re-run exactly one (configuration, draw history) and judge it."""
    import os
    res = new_result()
    cfg = {k: case[k] for k in ("pre", "avail", "readdress", "dry_run", "spelling") if k in case}
    if "faults" in case:
        cfg["faults"] = case["faults"]
    hist = [list(r) for r in case.get("history") or []]
    try:
        units, bus, kind, val, cnt = run_one(cfg, None, None, 99, None, exact=hist)
    except IndexError:
        # the tree under test asks for draws the recorded execution never made
        print("   recorded draw history does not fit this tree (different command stream)")
        return []
    if os.environ.get("VERIF_TRACE"):
        for d, a in bus.log:
            if d[1] not in ("SearchaddrH", "SearchaddrM", "SearchaddrL", "Compare"):
                print("    ", d[1], d[2], "->", a)
        print("   final short addresses:", [u.short for u in units], kind, val)
    judge(res, cfg, None, units, kind, val, cnt, bus)
    return res["violations"]


