"""C06 - responses interpret every backward-frame outcome faithfully and totally.

E1: exhaustive enumeration of (response class) x {None, BackwardFrame(0..255),
BackwardFrameError(0..255)} against the reference kind table dalimc.spec.responses.
"""
from dalimc.core.runner import new_result, add_violation, observe, sample
from dalimc.spec.responses import RESPONSES, mangle

ID = "C06"
OPTIMISED_STRIDE = {"quick": 8, "thorough": 8}      # every k-th shard once more in an interpreter started with -O
TRACE_STRIDE = {"quick": 8, "thorough": 8}      # every k-th shard once more with logging enabled down to TRACE
BYTEORDER_STRIDE = {"quick": 10, "thorough": 10}      # every k-th shard once more with sys.byteorder reporting a big-endian host
CHAIN_STRIDE = {'quick': 6, 'thorough': 6}      # every k-th shard is re-run in chains inside one process (non-initial process states)
LEVEL = "exploration"
TECHNIQUE = "exhaustive finite-domain enumeration of the real response classes against a reference kind table"
RULE = ("every response class reachable from Command._commands x 513 bus outcomes "
        "(None, 256 clean frames, 256 framing-error frames) + every named bit + 7 non-frame "
        "constructor arguments; distinct = distinct (class, value/status/str observation) tuples")
ASSUMPTIONS = [
    "answer kinds of parts 102/103 transcribed from the standard; bit names of parts 2xx pinned from the tree",
    "for undefined enum codes either ValueError or a non-member text marker is accepted (never a member)",
]
BOUNDS = {"quick": "all classes x all 513 outcomes (complete)", "thorough": "same as quick (domain is finite and fully enumerated)"}


def response_classes():
    from dali import command
    out = []
    for c in command.Command._commands:
        r = c.response
        if r is not None and r not in out:
            out.append(r)
    return out


def shards(tier):
    return [c.__module__ + ":" + c.__name__ for c in response_classes()] + ["__ctor__", "__cross__:fwd", "__cross__:rev"]


def run_cross(res, direction):
    """History dimension: interpretation must not depend on which other response classes were
    used before (class-level caches, shared tables).  All classes are evaluated one after the
    other on all outcomes inside ONE process, in declaration order and in reverse order."""
    classes = response_classes()
    if direction == "rev":
        classes = list(reversed(classes))
    for cls in classes:
        spec = RESPONSES.get(cls.__name__)
        if spec is None:
            continue
        n0 = len(res["violations"])
        for o in _outcomes():
            obs = check_point(cls, spec, o, res)
            res["evaluations"] += 1
            res["distinct"].add(("cross",) + obs[:2])
        for v in res["violations"][n0:]:
            v["case"]["cross"] = direction
            v["key"] = v["key"].replace("C06:", "C06:after-other-classes:", 1)
    sample(res, {"cross_class_order": direction, "classes": len(classes)})


def _find(name):
    mod, n = name.split(":")
    for c in response_classes():
        if c.__module__ == mod and c.__name__ == n:
            return c
    raise KeyError(name)


def _outcomes():
    yield ("none", None)
    for n in range(256):
        yield ("ok", n)
    for n in range(256):
        yield ("err", n)


def _mk(o):
    from dali import frame
    if o[0] == "none":
        return None
    if o[0] == "ok":
        return frame.BackwardFrame(o[1])
    return frame.BackwardFrameError(o[1])


def check_point(cls, spec, o, res):
    """Evaluate one (class, outcome) point; return observation tuple."""
    from dali.exceptions import MissingResponse, ResponseError
    cname = cls.__name__
    case = {"cls": cls.__module__ + ":" + cname, "outcome": list(o)}
    raw = _mk(o)
    try:
        r = cls(raw)
    except Exception as e:
        add_violation(res, f"C06:{cname}:ctor-raises", f"{cname}({o}) raised {e!r}", case)
        return ("ctor-exc",)
    if r.raw_value is not raw:
        add_violation(res, f"C06:{cname}:raw_value", f"{cname}({o}).raw_value is not the input frame", case)
    kind = spec["kind"]
    # ---- value ------------------------------------------------------------
    try:
        val = ("v", r.value)
    except (MissingResponse, ResponseError, ValueError) as e:
        val = ("x", type(e).__name__)
    except Exception as e:
        val = ("x", type(e).__name__)
        add_violation(res, f"C06:{cname}:value-unexpected-exception",
                      f"{cname}({o}).value raised {e!r}", case)
    okind, n = o

    def bad(what, exp):
        add_violation(res, f"C06:{cname}:value:{what}",
                      f"{cname}({o}).value -> {val!r}, expected {exp}", case)

    if kind == "yesno":
        exp = okind != "none"
        if val != ("v", exp) or (val[0] == "v" and not isinstance(val[1], bool)):
            bad(okind, exp)
    elif kind in ("numeric", "numeric_mask"):
        if okind == "ok":
            exp = "MASK" if (kind == "numeric_mask" and n == 255) else n
            if val != ("v", exp) or type(val[1]) is not type(exp):
                bad("clean", exp)
        else:
            # a non-integer marker
            if val[0] != "v" or isinstance(val[1], int) or val[1] is None:
                bad(okind, "a non-integer marker")
            elif val[1] == "MASK":
                bad(okind, "a marker different from MASK")
        if spec.get("nibbles") and okind == "ok":
            if (r.fade_time, r.fade_rate) != (n >> 4, n & 15):
                add_violation(res, f"C06:{cname}:nibbles", f"fade_time/rate of {n:#x} wrong", case)
    elif kind == "generic":
        if okind == "ok":
            if val[0] != "v" or val[1] is not raw:
                bad("clean", "the frame itself")
        elif okind == "none":
            # either None handed back or MissingResponse when an answer is required
            if not (val == ("v", None) or val == ("x", "MissingResponse")):
                bad("none", "None or MissingResponse")
        else:
            if not (val == ("x", "ResponseError") or (val[0] == "v" and val[1] is raw and cls._error_acceptable)):
                bad("err", "ResponseError")
    elif kind == "enum":
        members = spec["members"]
        if okind == "ok":
            if n in members:
                ok = val[0] == "v" and getattr(val[1], "name", None) == members[n] and int(val[1]) == n
                if not ok:
                    bad("member", members[n])
            elif spec.get("mask") and n == 255:
                if val != ("v", "MASK"):
                    bad("mask", "MASK")
            else:
                ok = val == ("x", "ValueError") or (val[0] == "v" and isinstance(val[1], str) and val[1] != "MASK")
                if not ok:
                    bad("undefined-code", "ValueError (or a text marker)")
        elif okind == "none":
            if not (val == ("v", None) or val == ("x", "MissingResponse")):
                bad("none", "None or MissingResponse")
        else:
            # garbled answer: ResponseError, or a text marker that claims no value
            # (neither an enum member nor MASK)
            ok = val == ("x", "ResponseError") or (
                val[0] == "v" and isinstance(val[1], str) and val[1] != "MASK")
            if not ok:
                bad("err", "ResponseError (or an error text marker)")
    elif kind == "bitmap":
        bits = spec["bits"]
        if list(cls.bits) != bits:
            add_violation(res, f"C06:{cname}:bit-names", f"{cname}.bits differs from the reference table", case)
        try:
            st = ("v", r.status)
        except (MissingResponse, ResponseError) as e:
            st = ("x", type(e).__name__)
        except Exception as e:
            st = ("x", type(e).__name__)
            add_violation(res, f"C06:{cname}:status-unexpected-exception", f"status raised {e!r}", case)
        if okind == "ok":
            exp = [b for i, b in enumerate(bits) if b and (n >> i) & 1]
            if st != ("v", exp):
                add_violation(res, f"C06:{cname}:status", f"{cname}({o}).status -> {st!r}, expected {exp}", case)
            for i, b in enumerate(bits):
                if b:
                    try:
                        got = getattr(r, mangle(b))
                    except Exception as e:
                        got = repr(e)
                    if got is not bool((n >> i) & 1):
                        add_violation(res, f"C06:{cname}:bit-attr",
                                      f"{cname}({o}).{mangle(b)} -> {got!r}", case)
            if val[0] != "v" or val[1] is not raw:
                bad("clean", "the frame itself")
        elif okind == "none":
            if st != ("x", "MissingResponse"):
                add_violation(res, f"C06:{cname}:status-none", f"status on missing answer -> {st!r}", case)
            if val != ("x", "MissingResponse"):
                bad("none", "MissingResponse")
        else:
            clean = [b for i, b in enumerate(bits) if b and (n >> i) & 1]
            ok = st == ("x", "ResponseError") or (
                st[0] == "v" and isinstance(st[1], list) and len(st[1]) == 1
                and "error" in str(st[1][0]) and st[1] != clean)
            if not ok:
                add_violation(res, f"C06:{cname}:status-err", f"status on framing error -> {st!r}", case)
            if val != ("x", "ResponseError"):
                bad("err", "ResponseError")
        val = (val[0], "frame" if val[0] == "v" else val[1], str(st))
    # ---- str() ---------------------------------------------------------------
    try:
        s = str(r)
        if not isinstance(s, str):
            add_violation(res, f"C06:{cname}:str-type", f"str() returned {type(s)}", case)
        sobs = s
    except (MissingResponse, ResponseError) as e:
        add_violation(res, f"C06:{cname}:str-raises:{okind}",
                      f"str({cname}({o})) raised {type(e).__name__}", case)
        sobs = "EXC"
    except ValueError:
        # an undefined enum code may propagate ValueError out of str(); the statement only
        # forbids MissingResponse/ResponseError there
        observe(res, "str_valueerror_on_undefined_enum_code")
        sobs = "VALUEERROR"
    except Exception as e:
        add_violation(res, f"C06:{cname}:str-unexpected-exception", f"str() raised {e!r}", case)
        sobs = "EXC"
    # ---- every other text rendering protocol: repr, %-formatting, format(), f-strings, inside containers --------------------
    for how, fn in (("repr()", lambda: repr(r)), ("'%s' %", lambda: "%s" % (r,)), ("'%r' %", lambda: "%r" % (r,)),
                    ("format()", lambda: format(r)), ("'{}'.format", lambda: "{}".format(r)), ("'{!r}'.format", lambda: "{!r}".format(r)),
                    ("f'{r!s:>4}'", lambda: f"{r!s:>4}"), ("str([r])", lambda: str([r])), ("str({'k': r})", lambda: str({"k": r})),
                    ("ascii()", lambda: ascii(r))):
        try:
            t = fn()
            if not isinstance(t, str):
                add_violation(res, f"C06:{cname}:render-type", f"{how} returned {type(t)}", case)
        except (MissingResponse, ResponseError) as e:
            add_violation(res, f"C06:{cname}:render-raises:{okind}", f"{how} of {cname}({o}) raised {type(e).__name__}", case)
        except ValueError:
            observe(res, "render_valueerror_on_undefined_enum_code")
        except Exception as e:
            add_violation(res, f"C06:{cname}:render-unexpected-exception", f"{how} of {cname}({o}) raised {e!r}", case)
    # ---- reading is idempotent: the same object read again (value, str, status, named bits) says the same --------------
    def snapshot():
        nonlocal r
        out = []
        for what in ("value", "str", "status"):
            try:
                x = r.value if what == "value" else (str(r) if what == "str" else getattr(r, "status", None))
                if hasattr(x, "as_integer") and hasattr(x, "pack"):       # a frame: compared by content, not identity
                    x = ("frame", len(x), x.as_integer, bool(getattr(x, "error", False)))
                out.append((what, "v", repr(x)))
            except Exception as e:
                out.append((what, "x", type(e).__name__))
        return out
    first = snapshot()
    second = snapshot()
    # every other public attribute / property the response class offers is read once in between (class-specific
    # accessors included): reading is reading - what the object, or its class, says afterwards must not change
    for nm in dir(type(r)):
        if not nm.startswith("_"):
            try:
                getattr(r, nm)
            except Exception:
                pass
    # what a read hands out belongs to the caller: editing a returned list / dict / set must not change later reads
    for nm in ("status", "value"):
        try:
            x = getattr(r, nm)
        except Exception:
            continue
        if isinstance(x, list):
            x.append("(caller's note)")
            x.reverse()
            del x[1:]
        elif isinstance(x, dict):
            x.clear()
        elif isinstance(x, set):
            x.add("(caller's note)")
    third = snapshot()
    if not (first == second == third) or (first[0][1] == "v") != (val[0] == "v") or (first[0][1] == "x" and first[0][2] != val[1]):
        add_violation(res, f"C06:{cname}:reread-differs:{okind}",
                      f"{cname}({o}): first .value {val!r}, then on the same object {first}, {second}, {third}", case)
    # ---- a response object is a plain value: duplicates (copy, deepcopy, pickle round trip) interpret the frame alike ------
    import copy
    import pickle
    for how, dup in (("copy.copy", lambda: copy.copy(r)), ("copy.deepcopy", lambda: copy.deepcopy(r)),
                     ("pickle", lambda: pickle.loads(pickle.dumps(r)))):
        try:
            r2 = dup()
        except Exception as e:
            add_violation(res, f"C06:{cname}:duplicate-fails:{how}", f"{how} of {cname}({o}) raised {type(e).__name__}", case)
            continue
        keep, r = r, r2
        try:
            snap2 = snapshot()
        finally:
            r = keep
        if snap2 != first or type(r2) is not type(r):
            add_violation(res, f"C06:{cname}:duplicate-differs:{how}", f"{how} of {cname}({o}) reads {snap2}, the original {first}", case)
    v1 = val[1]
    if v1 is raw and raw is not None:
        v1 = "frame"
    return (cname, okind, str(v1), sobs)


def run_shard(shard):
    res = new_result()
    if shard.startswith("__cross__"):
        run_cross(res, shard.split(":")[1])
        return res
    if shard == "__ctor__":
        from dali import frame
        bads = [0, 255, b"\x00", "yes", frame.Frame(8, 1), frame.ForwardFrame(16, 1), object(), 1.5, True, [1]]
        for cls in response_classes():
            for b in bads:
                res["evaluations"] += 1
                case = {"cls": cls.__module__ + ":" + cls.__name__, "ctor": repr(b)[:40], "idx": bads.index(b)}
                try:
                    cls(b)
                    add_violation(res, f"C06:{cls.__name__}:ctor-accepts-nonframe",
                                  f"{cls.__name__}({b!r}) was accepted", case)
                    res["distinct"].add((cls.__name__, "accepted", type(b).__name__))
                except TypeError:
                    res["distinct"].add((cls.__name__, "TypeError", type(b).__name__))
                except Exception as e:
                    add_violation(res, f"C06:{cls.__name__}:ctor-wrong-exception",
                                  f"{cls.__name__}({b!r}) raised {e!r} not TypeError", case)
        sample(res, {"ctor_args_rejected": [repr(b)[:30] for b in bads]})
        return res
    cls = _find(shard)
    spec = RESPONSES.get(cls.__name__)
    if spec is None:
        add_violation(res, f"C06:{cls.__name__}:unclassified",
                      f"response class {shard} has no row in the reference table", {"cls": shard, "outcome": ["none", None]})
        res["evaluations"] = 1
        return res
    for o in _outcomes():
        obs = check_point(cls, spec, o, res)
        res["evaluations"] += 1
        res["distinct"].add(obs)
        if o in (("ok", 255), ("err", 3)):
            sample(res, {"class": cls.__name__, "outcome": list(o), "observed": list(obs)})
    return res


def replay(case):
    res = new_result()
    if "cross" in case:
        run_cross(res, case["cross"])
        return res["violations"]
    if "ctor" in case:
        r = run_shard("__ctor__")
        return [v for v in r["violations"] if v["case"]["cls"] == case["cls"] and v["case"]["idx"] == case["idx"]]
    cls = _find(case["cls"])
    spec = RESPONSES.get(cls.__name__)
    if spec is None:
        add_violation(res, f"C06:{cls.__name__}:unclassified", "no table row", case)
        return res["violations"]
    o = tuple(case["outcome"])
    obs = check_point(cls, spec, o, res)
    print("   observation:", obs)
    return res["violations"]
