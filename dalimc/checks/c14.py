"""C14 - colour (DT8) sequences carry 16-bit values byte-exactly and in order.

E2 + E1: the real SetDT8ColourValueTc / SetDT8TcLimit / QueryDT8ColourValue generators
closed with the Tc subset of a DT8 gear model (dalimc.env.gear102); all 16-bit values
(thorough) and all selectors are enumerated, answer faults on either byte of the query.
"""
from dalimc.core.runner import new_result, add_violation, observe, sample
from dalimc.env import gear102 as G
from . import _partner as P

ID = "C14"
OPTIMISED_STRIDE = {"quick": 6, "thorough": 12}      # every k-th shard once more in an interpreter started with -O
TRACE_STRIDE = {"quick": 6, "thorough": 12}      # every k-th shard once more with logging enabled down to TRACE
BYTEORDER_STRIDE = {"quick": 3, "thorough": 6}      # every k-th shard once more with sys.byteorder reporting a big-endian host
LEVEL = "model_checking"
ENGINE = "E2"
TECHNIQUE = "exhaustive enumeration of 16-bit values x selectors x destinations driving the real DT8 generators against a spec model of the DT8 Tc registers; answer faults enumerated at both query bytes"
RULE = ("set: mirek values x {Short, int, Group, Broadcast}; limit: 4 selectors x values; query: all selector codes x stored values "
        "x answer faults {silence, framing error} on MSB and LSB and MSB=255; illegal arguments {65536,-1,2^31,1.5,'x',None} and "
        "non-selector query arguments must raise with zero commands sent; states = distinct (sequence, value, destination|selector) "
        "configurations; transitions = commands executed")
ASSUMPTIONS = [
    "DT8 model: SET TEMPORARY COLOUR TEMPERATURE Tc takes DTR1:DTR0 at the time of the command, ACTIVATE copies temporary -> actual (unless MASK), STORE COLOUR TEMPERATURE Tc LIMIT uses DTR2 as selector, QUERY COLOUR VALUE answers the MSB and loads the LSB into DTR0 (IEC 62386-209 11.3)",
    "the ENABLE DEVICE TYPE 8 prefix is the driver's job (C15); here the DT8 command is decoded under the command's own device type",
    "the unit's DTRs hold stale 0xA5 before every run, so a missing or late DTR load is visible",
]
CHAIN_STRIDE = {'quick': 3, 'thorough': 20}      # every k-th shard is re-run in chains inside one process (non-initial process states)
BOUNDS = {"quick": "values with both bytes in {0,1,0x7F,0x80,0xFE,0xFF} + every 13th value (5 042); all selectors; all 64 short addresses and 16 groups on 3 values, set and limit to 5 destination kinds (short, int, group, broadcast, broadcast-unaddressed)", "thorough": "all 65 536 values for set (4 destinations), limit (4 selectors) and the Tc query selector; all 65 536 values for every one of the 73 query selectors"}

EDGE = [0x00, 0x01, 0x7F, 0x80, 0xFE, 0xFF]


def values(tier):
    if tier == "thorough":
        return range(65536)
    return sorted({(h << 8) | l for h in EDGE for l in EDGE} | set(range(0, 65536, 13)) | {153, 370, 500, 0x0100, 0x00FF})


def shards(tier):
    out = []
    vs = list(values(tier))
    n = 4 if tier == "quick" else 32
    for dest in ("short", "int", "group", "broadcast"):
        for p in range(n if dest == "short" or tier == "thorough" else 1):
            out.append(("set", dest, p, n if dest == "short" or tier == "thorough" else 1, tier))
    for sel in range(4):
        for p in range(n):
            out.append(("limit", sel, p, n, tier))
    out.append(("query", tier, 0, 1) if tier == "quick" else ("query", tier, 0, 64))
    if tier == "thorough":
        for p in range(1, 64):
            out.append(("query", tier, p, 64))
    out.append(("illegal",))
    out.append(("enums",))
    for a0 in range(0, 64, 16):
        out.append(("addr_sweep", a0, a0 + 16))
    out += P.partner_shards(PARTNERS, [0, 1, 2, 3, "alt"])
    return out


SA, GRP = 3, 2          # unit under test (overridden by the address sweep)


def mkbus(groups=None, unaddressed=False):
    groups = (GRP,) if groups is None else groups
    u = G.Gear(short=None if unaddressed else SA, groups=set(groups), devicetypes=[6, 8])
    v = G.Gear(short=(SA + 1) % 64, groups={(GRP + 3) % 16}, devicetypes=[8])
    for x in (u, v):
        x.dtr0 = x.dtr1 = x.dtr2 = 0xA5
        x.tc_actual = 0x1234
        x.tc_limits = {0: 0x1111, 1: 0x2222, 2: 0x3333, 3: 0x4444}
    return u, v, G.Bus([u, v])


AFORM = None        # "sub": address objects are instances of an application subclass of the library's address classes
_SUBS = {}


def mkdest(kind):
    from dali.address import GearShort, GearGroup, GearBroadcast, GearBroadcastUnaddressed

    def mk(cls, *args):
        if AFORM == "sub":
            if cls not in _SUBS:
                _SUBS[cls] = type("Labelled" + cls.__name__, (cls,), {"label": "luminaire"})
            return _SUBS[cls](*args)
        return cls(*args)
    return {"short": lambda: mk(GearShort, SA), "int": lambda: SA, "group": lambda: mk(GearGroup, GRP), "broadcast": lambda: mk(GearBroadcast),
            "unaddressed": lambda: mk(GearBroadcastUnaddressed)}[kind]()


def check_set(res, dest, val):
    from dali.gear.sequences import SetDT8ColourValueTc
    u, v, bus = mkbus(unaddressed=dest == "unaddressed")      # (broadcast unaddressed: the unit under test has no short address yet)
    kind, r, n = G.run_sequence(SetDT8ColourValueTc(mkdest(dest), val), bus, 50)
    res["transitions"] += n
    case = {"t": "set", "dest": dest, "value": val}
    if kind != "return":
        add_violation(res, f"C14:set-raised:{dest}", f"SetDT8ColourValueTc({dest},{val}): {kind} {r!r}", case)
        return
    names = [d[1] for d, a in bus.log]
    if names != ["DTR0", "DTR1", "SetTemporaryColourTemperature", "Activate"] and \
            names != ["DTR1", "DTR0", "SetTemporaryColourTemperature", "Activate"]:
        add_violation(res, f"C14:set-order:{dest}", f"value {val}: command order {names}", case)
    targets = [u, v] if dest == "broadcast" else [u]
    for t in targets:
        got = [x for x in t.dt8_log if x[0] == "SetTemporaryColourTemperature"]
        if not got or (got[0][2] << 8 | got[0][1]) != val:
            add_violation(res, f"C14:set-bytes:{dest}", f"value {val:#06x}: DTR1:DTR0 at the DT8 command = {got}", case)
        if val != 0xFFFF and t.tc_actual != val:
            add_violation(res, f"C14:set-value:{dest}", f"value {val:#06x}: unit ends with colour temperature {t.tc_actual:#06x}", case)
    if dest != "broadcast" and (v.tc_actual != 0x1234 or v.dt8_log):
        add_violation(res, f"C14:set-bystander:{dest}", f"value {val}: an unaddressed unit was changed", case)


def check_limit(res, sel, val, dest="short"):
    from dali.gear.sequences import SetDT8TcLimit
    from dali.gear.colour import StoreColourTemperatureTcLimitDTR2 as L
    u, v, bus = mkbus()
    from dalimc.spec import dt8_tables as T8
    # the symbolic selector is looked up BY NAME in the literal table of the standard (never by the library's own numbering)
    lname = [n for n, num in T8.STORE_TC_LIMIT_DTR2.items() if num == sel][0]
    selector = getattr(L, lname, None)
    if selector is None:
        add_violation(res, "C14:limit-selector-missing", f"StoreColourTemperatureTcLimitDTR2 has no member {lname}", {"t": "limit", "sel": sel, "value": val})
        return
    for form in (selector, sel):
        u, v, bus = mkbus(unaddressed=dest == "unaddressed")
        kind, r, n = G.run_sequence(SetDT8TcLimit(mkdest(dest), form, val), bus, 50)
        res["transitions"] += n
        case = {"t": "limit", "sel": sel, "value": val, "dest": dest}
        if kind != "return":
            add_violation(res, "C14:limit-raised" + ("" if dest == "short" else ":" + dest), f"SetDT8TcLimit({dest},{sel},{val}): {kind} {r!r}", case)
            return
        names = [d[1] for d, a in bus.log]
        if sorted(names[:3]) != ["DTR0", "DTR1", "DTR2"] or names[3:] != ["StoreColourTemperatureTcLimit"]:
            add_violation(res, "C14:limit-order", f"selector {sel} value {val}: command order {names}", case)
        exp = {0: 0x1111, 1: 0x2222, 2: 0x3333, 3: 0x4444}
        exp[sel] = val
        if u.tc_limits != exp:
            add_violation(res, "C14:limit-value", f"selector {sel} value {val:#06x}: limits {u.tc_limits}", case)
        if dest == "broadcast":
            if v.tc_limits != exp:
                add_violation(res, "C14:limit-value:broadcast", f"selector {sel} value {val:#06x}: second unit's limits {v.tc_limits}", case)
        elif v.tc_limits != {0: 0x1111, 1: 0x2222, 2: 0x3333, 3: 0x4444}:
            add_violation(res, "C14:limit-bystander", "unaddressed unit changed", case)


def check_query(res, selector, val, fault=None):
    from dali.gear.sequences import QueryDT8ColourValue
    from dali import frame as F
    u, v, bus = mkbus()
    u.colour_values = {selector.value: val, (selector.value + 1) & 0xFF: val ^ 0xFFFF}
    fl = None
    if fault:
        def fl(i, cmd, fr):
            name = type(cmd).__name__
            if name == fault[0]:
                if fault[1] == "silence":
                    return None
                if fault[1] == "err":
                    return F.BackwardFrameError(fr.as_integer if fr is not None else 0)
            return fr
    for form in ("obj", "int"):
        u, v, bus = mkbus()
        u.colour_values = {selector.value: val, (selector.value + 1) & 0xFF: val ^ 0xFFFF}
        kind, r, n = G.run_sequence(QueryDT8ColourValue(mkdest("short" if form == "obj" else "int"), selector), bus, 50, fl)
        res["transitions"] += n
        case = {"t": "query", "sel": selector.value, "value": val, "fault": list(fault) if fault else None}
        if kind != "return":
            add_violation(res, "C14:query-raised", f"QueryDT8ColourValue({selector.name},{val:#06x},{fault}): {kind} {r!r}", case)
            return
        exp = val if (val >> 8) != 0xFF and not fault else None
        if r != exp or (r is not None and type(r) is not int):
            add_violation(res, f"C14:query-value:{'fault' if fault else 'clean'}",
                          f"QueryDT8ColourValue({selector.name}) with stored {val:#06x}, fault {fault}: returned {r!r}, expected {exp!r}", case)


def run_addr_sweep(res, lo, hi):
    """The same set / limit / query addressed to every short address (object and integer) and every group:
    nothing may depend on WHICH unit is addressed."""
    global SA, GRP, AFORM
    from dali.gear.colour import QueryColourValueDTR, StoreColourTemperatureTcLimitDTR2
    sel = [m for m in QueryColourValueDTR if m.name == "ColourTemperatureTC"][0]
    old = SA, GRP
    try:
        for sa, aform in [(a, None) for a in range(lo, hi)] + [(a, "sub") for a in range(lo, hi) if a % 16 in (0, 5, 15)]:
            SA, GRP, AFORM = sa, sa % 16, aform
            n0 = len(res["violations"])
            for dest in ("short", "int", "group", "broadcast", "unaddressed"):
                for val in (0x00C8, 0x0172, 0x01FF):
                    check_set(res, dest, val)
            for lim in range(4):
                for dest in ("short", "int", "group", "broadcast", "unaddressed"):
                    check_limit(res, lim, 0x0099 + lim, dest)
            for val in (0x00FF, 0x1234):
                check_query(res, sel, val)
                check_query(res, sel, val, ("QueryColourValue", "silence"))
            for v in res["violations"][n0:]:
                v["case"]["sa"] = sa
            res["evaluations"] += 20
            res["states"] += 20
    finally:
        SA, GRP = old
        AFORM = None
    res["distinct"].add(("addr_sweep", lo))
    sample(res, {"address_sweep": [lo, hi - 1], "groups": "sa mod 16"})


def _partner_set():
    from dali.gear.sequences import SetDT8ColourValueTc
    from dali.address import GearShort
    u = G.Gear(short=9, groups={1}, devicetypes=[8])
    u.dtr0 = u.dtr1 = u.dtr2 = 0x3C
    u.tc_actual, u.tc_limits = 0x0101, {0: 1, 1: 2, 2: 3, 3: 4}
    return SetDT8ColourValueTc(GearShort(9), 0x0123), G.Bus([u]), lambda: (u.tc_actual, dict(u.tc_limits))


def _partner_limit():
    from dali.gear.sequences import SetDT8TcLimit
    from dali.gear.colour import StoreColourTemperatureTcLimitDTR2 as L
    from dali.address import GearShort
    u = G.Gear(short=9, groups={1}, devicetypes=[8])
    u.dtr0 = u.dtr1 = u.dtr2 = 0x3C
    u.tc_actual, u.tc_limits = 0x0101, {0: 1, 1: 2, 2: 3, 3: 4}
    return SetDT8TcLimit(GearShort(9), list(L)[-1], 0x0456), G.Bus([u]), lambda: (u.tc_actual, dict(u.tc_limits))


def _partner_query():
    from dali.gear.sequences import QueryDT8ColourValue
    from dali.gear.colour import QueryColourValueDTR as Q
    from dali.address import GearShort
    u = G.Gear(short=9, groups={1}, devicetypes=[8])
    u.tc_actual, u.tc_limits = 0x0101, {0: 1, 1: 2, 2: 3, 3: 4}
    sel = [m for m in Q if m.name == "ColourTemperatureTC"][0]
    u.colour_values = {sel.value: 0x0777}
    return QueryDT8ColourValue(GearShort(9), sel), G.Bus([u]), lambda: (u.tc_actual, dict(u.tc_limits))


PARTNERS = [("SetDT8ColourValueTc", _partner_set), ("SetDT8TcLimit", _partner_limit), ("QueryDT8ColourValue", _partner_query)]
PARTNERED = [("addr_sweep", 0, 6), ("addr_sweep", 60, 64), ("illegal",), ("query", "quick", 0, 16)]


def run_shard(shard):
    if shard[0] == "partnered":
        import sys
        return P.run_partnered(sys.modules[__name__], shard, PARTNERS, PARTNERED)
    res = new_result()
    k = shard[0]
    if k == "addr_sweep":
        run_addr_sweep(res, shard[1], shard[2])
        return res
    if k == "enums":
        # selector enums against the literal tables of the standard: same names, same numbers, nothing extra
        from dali.gear import colour as C
        from dalimc.spec import dt8_tables as T8
        for ename, table in (("QueryColourValueDTR", T8.QUERY_COLOUR_VALUE_DTR), ("StoreColourTemperatureTcLimitDTR2", T8.STORE_TC_LIMIT_DTR2)):
            lib = {m.name: int(m.value) for m in getattr(C, ename)}
            for n in sorted(set(lib) | set(table)):
                res["evaluations"] += 1
                if lib.get(n) != table.get(n):
                    add_violation(res, f"C14:selector-number:{ename}", f"{ename}.{n} = {lib.get(n)}, IEC 62386-209 says {table.get(n)}",
                                  {"t": "enums", "enum": ename, "name": n})
            res["distinct"].add(("enum", ename))
        # set each limit by NAME, read it back by NAME (unit model numbered per the standard)
        from dali.gear.sequences import SetDT8TcLimit, QueryDT8ColourValue
        for lname, qname in T8.LIMIT_READBACK.items():
            u, v, bus = mkbus()
            sel = getattr(C.StoreColourTemperatureTcLimitDTR2, lname, None)
            q = getattr(C.QueryColourValueDTR, qname, None)
            if sel is None or q is None:
                continue
            val = 0x0100 + T8.STORE_TC_LIMIT_DTR2[lname]
            G.run_sequence(SetDT8TcLimit(mkdest("short"), sel, val), bus, 50)
            u.colour_values = {T8.QUERY_COLOUR_VALUE_DTR[n]: u.tc_limits[T8.STORE_TC_LIMIT_DTR2[l]] for l, n in T8.LIMIT_READBACK.items()}
            kind, r, n = G.run_sequence(QueryDT8ColourValue(mkdest("short"), q), bus, 50)
            res["evaluations"] += 1
            if kind != "return" or r != val:
                add_violation(res, "C14:limit-readback", f"limit {lname} set to {val:#06x} and read back through {qname}: {kind} {r!r}",
                              {"t": "enums", "enum": "readback", "name": lname})
        sample(res, {"selector_enums": ["QueryColourValueDTR", "StoreColourTemperatureTcLimitDTR2"]})
        return res
    if k == "set":
        _, dest, p, n, tier = shard
        vs = [x for i, x in enumerate(values(tier)) if i % n == p]
        for val in vs:
            check_set(res, dest, val)
        res["evaluations"] += len(vs)
        res["states"] += len(vs)
        res["traces"] += len(vs)
        res["distinct"].add(("set", dest))
        sample(res, {"set": dest, "values": len(vs)})
    elif k == "limit":
        _, sel, p, n, tier = shard
        vs = [x for i, x in enumerate(values(tier)) if i % n == p]
        for val in vs:
            check_limit(res, sel, val)
        res["evaluations"] += 2 * len(vs)
        res["states"] += len(vs)
        res["traces"] += len(vs)
        res["distinct"].add(("limit", sel))
        sample(res, {"limit_selector": sel, "values": len(vs)})
    elif k == "query":
        from dali.gear.colour import QueryColourValueDTR as Q
        _, tier, p, n = shard
        cnt = 0
        for selector in Q:
            if tier == "thorough":
                vs = range(p, 65536, n)
            else:
                vs = sorted({(h << 8) | l for h in EDGE for l in EDGE} | set(range(0, 65536, 4111)))
            for val in vs:
                check_query(res, selector, val)
                cnt += 1
            if p == 0:
                for val in (0x0000, 0x0100, 0x00FF, 0xFEFF, 0x1234):
                    for f in (("QueryColourValue", "silence"), ("QueryColourValue", "err"),
                              ("QueryContentDTR0", "silence"), ("QueryContentDTR0", "err")):
                        check_query(res, selector, val, f)
                        cnt += 1
            res["distinct"].add(("query", selector.value))
        res["evaluations"] += 2 * cnt
        res["states"] += cnt
        res["traces"] += cnt
        sample(res, {"query_selectors": len(Q), "runs": cnt})
    else:
        from dali.gear.sequences import SetDT8ColourValueTc, SetDT8TcLimit, QueryDT8ColourValue
        from dali.gear.colour import StoreColourTemperatureTcLimitDTR2 as L, QueryColourValueDTR as Q
        from dali.address import GearShort
        probes = []
        for bad in (65536, -1, 2 ** 31, 1.5, "x", None, 65535.0):
            probes.append((f"SetDT8ColourValueTc({bad!r})", lambda bad=bad: SetDT8ColourValueTc(GearShort(3), bad)))
            probes.append((f"SetDT8TcLimit(0,{bad!r})", lambda bad=bad: SetDT8TcLimit(GearShort(3), L.TcCoolest, bad)))
        for bad in (2, 16, 255, None, L.TcCoolest, "ColourTemperatureTC", 2.0):
            probes.append((f"QueryDT8ColourValue({bad!r})", lambda bad=bad: QueryDT8ColourValue(GearShort(3), bad)))
        # every byte that is NOT a selector code in the standard's table, turned into a "selector" the way an application
        # validates a raw code - by calling the enum with it: nothing may reach the bus
        from dalimc.spec import dt8_tables as T8
        qcodes = set(T8.QUERY_COLOUR_VALUE_DTR.values())
        lcodes = set(T8.STORE_TC_LIMIT_DTR2.values())
        for code in range(256):
            if code not in qcodes:
                probes.append((f"QueryDT8ColourValue(QueryColourValueDTR({code}))", lambda code=code: QueryDT8ColourValue(GearShort(3), Q(code))))
            if code not in lcodes:
                probes.append((f"SetDT8TcLimit(StoreColourTemperatureTcLimitDTR2({code}))", lambda code=code: SetDT8TcLimit(GearShort(3), L(code), 300)))
        for label, mk in probes:
            u, v, bus = mkbus()
            try:
                kind, r, n = G.run_sequence(mk(), bus, 50)
            except Exception as e:
                kind, r, n = "raise", e, 0
            res["evaluations"] += 1
            res["states"] += 1
            if kind != "raise" or n != 0 or bus.log:
                add_violation(res, f"C14:illegal-accepted:{label.split('(')[0]}", f"{label}: {kind} {r!r} after {n} commands {[d[1] for d, a in bus.log]}",
                              {"t": "illegal", "label": label})
            res["distinct"].add(("illegal", label.split("(")[0], kind))
        sample(res, {"illegal_probes": [l for l, _ in probes][:6]})
    return res


def replay(case):
    if case.get("t") == "enums":
        return run_shard(("enums",))["violations"]
    if "sa" in case:
        r = new_result()
        run_addr_sweep(r, case["sa"], case["sa"] + 1)
        return r["violations"]
    from dali.gear.colour import QueryColourValueDTR as Q
    res = new_result()
    t = case["t"]
    if t == "set":
        check_set(res, case["dest"], case["value"])
    elif t == "limit":
        check_limit(res, case["sel"], case["value"], case.get("dest", "short"))
    elif t == "query":
        sel = [m for m in Q if m.value == case["sel"]][0]
        check_query(res, sel, case["value"], tuple(case["fault"]) if case["fault"] else None)
    else:
        return [v for v in run_shard(("illegal",))["violations"] if v["case"]["label"] == case["label"]]
    return res["violations"]
