"""C11 - memory values decode any raw bytes totally and per the DiiA/IEC layout.

E1: every declared value x all raw strings (widths 1-2 exhaustively, boundary products for
wider ones) through the library's public interpretation path (MemoryValue.from_list) against
the reference decoder and layout table in dalimc.spec.memory_layout.
"""
import importlib
import itertools

from dalimc.core.runner import new_result, add_violation, observe, sample
from dalimc.spec import memory_layout as M

ID = "C11"
OPTIMISED_STRIDE = {"quick": 12, "thorough": 24}      # every k-th shard once more in an interpreter started with -O
TRACE_STRIDE = {"quick": 12, "thorough": 24}      # every k-th shard once more with logging enabled down to TRACE
BYTEORDER_STRIDE = {"quick": 16, "thorough": 32}      # every k-th shard once more with sys.byteorder reporting a big-endian host
LEVEL = "exploration"
ENGINE = "E1"
TECHNIQUE = "exhaustive enumeration of raw byte strings (complete for 1- and 2-byte values) through the real interpreter vs a reference decoder; literal layout table comparison"
RULE = ("every declared value x every raw string for widths 1 and 2; for wider values the product of per-byte boundary "
        "alphabets on the outer bytes x structured middles, +-2 around min/max/MASK/TMASK, all 256 scale bytes, every NUL / "
        "non-ASCII position for strings; inverse direction for plain numbers and strings; declared map vs literal layout; "
        "distinct = distinct (value, result class) pairs")
ASSUMPTIONS = [
    "layout of banks 0/1 from IEC 62386-102 Table 9 / 9.10.7 and DiiA 251; banks 202-207 recalled from DiiA 252/253 and reviewed against the tree (flag columns pinned)",
    "inverse direction is demanded only for plain numbers and strings (statement); TemperatureValue/FixedScaleNumericValue.value_to_raw not applying the inverse offset/scale is recorded as an observation",
]
CHAIN_STRIDE = {'quick': 8, 'thorough': 20}      # every k-th shard is re-run in chains inside one process (non-initial process states)
BOUNDS = {"quick": "widths 1-2 exhaustive; wider: 8^4 outer-byte product x 3 middles + boundaries", "thorough": "widths 1-3 exhaustive (2^24 raws for each 3-byte value); 12^4 outer-byte product x 5 middles for wider ones, strings with two special bytes"}


def lib_values():
    out = {}
    for bname, (mod, addr, last, has_lock, has_latch) in M.BANKS.items():
        bank = getattr(importlib.import_module("dali.memory." + mod), bname)
        for v in bank.values:
            out[(bname, v.name)] = v
    return out


def shards(tier):
    out = [("layout",)]
    for r in M.VALUES:
        w = M.width(r)
        if w == 2:
            for p in range(4):
                out.append(("value", r[0], r[1], tier, p, 4))
        elif w == 3 and tier == "thorough":
            for p in range(64):
                out.append(("value", r[0], r[1], tier, p, 64))
        else:
            out.append(("value", r[0], r[1], tier, 0, 1))
    out.append(("inverse", tier))
    out.append(("declare",))
    for part in range(8):
        out.append(("derived", tier, part, 8))
    out.append(("limits",))
    return out


def raws_for(row, tier):
    w = M.width(row)
    kind = row[2]
    if w == 1:
        return (bytes([a]) for a in range(256))
    if w == 2:
        return (bytes([a, b]) for a in range(256) for b in range(256))
    if w == 3 and tier == "thorough":
        return (n.to_bytes(3, "big") for n in range(1 << 24))
    A = [0x00, 0x01, 0x7E, 0x7F, 0x80, 0xFD, 0xFE, 0xFF]
    if tier == "thorough":
        A = A + [0x06, 0x07, 0xF9, 0xFA]
    out = set()
    mids = [0x00, 0xFF, 0x55] if tier == "quick" else [0x00, 0xFF, 0x55, 0x7F, 0x80]
    nmid = max(0, w - 4)
    if w == 3:
        for a, b, c in itertools.product(A, A, A):
            out.add(bytes([a, b, c]))
    else:
        for a, b, c, d in itertools.product(A, A, A, A):
            for m in mids:
                out.add(bytes([a, b] + [m] * nmid + [c, d]))
    # numeric boundaries (value bytes = all but the scale byte for scaled values)
    body = w - 1 if kind == "scaled" else w
    ones = (1 << (8 * body)) - 1
    pts = {0, 1, ones, ones - 1, ones - 2, ones - 3}
    for lim in (row[8], row[9]):
        if lim is not None:
            pts.update(x for x in range(lim - 2, lim + 3) if 0 <= x <= ones)
    if kind == "scaled":
        for sb in range(256):
            for n in pts:
                out.add(bytes([sb]) + n.to_bytes(body, "big"))
    else:
        for n in pts:
            out.add(n.to_bytes(body, "big"))
    if kind == "string":
        for word in (b"MASK", b"TMASK", b"Invalid", b"None", b"(missing)"):      # texts that spell a flag: still plain strings
            if len(word) <= w:
                out.add(word + bytes(w - len(word)))
                out.add(word + b"\x00" + b"Z" * (w - len(word) - 1) if len(word) < w else word)
        for pos in range(w):
            for fill in (0x41, 0x7F, 0x01):
                b = bytearray([fill] * w)
                b[pos] = 0x00
                out.add(bytes(b))
                b[pos] = 0x80
                out.add(bytes(b))
                b[pos] = 0xFF
                out.add(bytes(b))
                # non-ASCII byte after a NUL must not matter; before it must
                for npos in range(w):
                    if tier == "thorough" or npos in (0, 1, pos - 1, pos + 1, w - 1):
                        if 0 <= npos < w and npos != pos:
                            c = bytearray([fill] * w)
                            c[pos] = 0x00
                            c[npos] = 0x9C
                            out.add(bytes(c))
    return sorted(out)


def check_value(res, cls, row, raw):
    case = {"t": "value", "bank": row[0], "name": row[1], "raw": raw.hex()}
    lst = [None] * 255
    for i, b in enumerate(raw):
        lst[row[3] + i] = b
    try:
        raw_result = cls.from_list(lst)
        got = M.lib_norm(raw_result)
        # "either a value or one of the flags": a plain value must never pass for a flag (==, in, set / dict membership)
        if type(raw_result).__name__ != "FlagValue":
            from dali.memory.location import FlagValue
            flags = list(FlagValue)
            try:
                confused = [f.name for f in flags if raw_result == f or f == raw_result] or \
                    (["(set membership)"] if raw_result in set(flags) else [])
            except TypeError:
                confused = []
            if confused:
                add_violation(res, f"C11:value-equals-flag:{row[1]}", f"{row[1]} raw {raw.hex()}: the plain value {raw_result!r} compares equal to flag {confused}", case)
    except Exception as e:
        add_violation(res, f"C11:raises:{row[1]}", f"{row[1]} raw {raw.hex()}: interpretation raised {e!r}", case)
        return "EXC"
    exp = M.ref_decode(row, raw)
    if got != exp or type(got) is not type(exp):
        add_violation(res, f"C11:decode:{row[1]}", f"{row[1]} raw {raw.hex()}: library {got!r}, reference {exp!r}", case)
    if got is None:
        add_violation(res, f"C11:none:{row[1]}", f"{row[1]} raw {raw.hex()} interpreted as None", case)
    return exp.name if any(exp is f for f in (M.MASK, M.TMASK, M.INVALID)) else "value"


def run_shard(shard):
    res = new_result()
    vals = lib_values()
    rows = M.by_name()
    k = shard[0]
    if k == "layout":
        # both inclusions + field comparison
        for key, row in rows.items():
            res["evaluations"] += 1
            case = {"t": "layout", "bank": key[0], "name": key[1]}
            cls = vals.get(key)
            if cls is None:
                add_violation(res, f"C11:layout-missing:{key[1]}", f"table value {key} not declared by the library", case)
                continue
            locs = [l.address for l in cls.locations]
            types = tuple(sorted({l.type_.name for l in cls.locations}))
            if locs != list(range(row[3], row[4] + 1)):
                add_violation(res, f"C11:layout-locations:{key[1]}", f"{key}: locations {locs[0]:#x}..{locs[-1]:#x} ({len(locs)}), table {row[3]:#x}..{row[4]:#x}", case)
            if types != row[5]:
                add_violation(res, f"C11:layout-access:{key[1]}", f"{key}: access {types}, table {row[5]}", case)
            if cls.bank.address != M.BANKS[key[0]][1]:
                add_violation(res, f"C11:layout-bank:{key[1]}", f"{key}: bank {cls.bank.address}", case)
            res["distinct"].add(("layout", key[1]))
        for key in vals:
            if key not in rows:
                add_violation(res, f"C11:layout-unknown:{key[1]}", f"library declares {key}, not in the layout table", {"t": "layout", "bank": key[0], "name": key[1]})
        for bname, (mod, addr, last, has_lock, has_latch) in M.BANKS.items():
            bank = getattr(importlib.import_module("dali.memory." + mod), bname)
            case = {"t": "layout", "bank": bname, "name": "(bank)"}
            if (bank.address, bank.has_lock, bank.has_latch) != (addr, has_lock, has_latch):
                add_violation(res, f"C11:bank-attrs:{bname}", f"{bname}: {bank!r}", case)
            if bank.LastAddress.locations[0].default != last:
                add_violation(res, f"C11:bank-last:{bname}", f"{bname}: default last location {bank.LastAddress.locations[0].default}", case)
            # pairwise non-overlap and lockable only with a lock byte
            seen = {}
            for v in bank.values:
                for l in v.locations:
                    if l.address in seen:
                        add_violation(res, f"C11:overlap:{bname}", f"{v.name} and {seen[l.address]} overlap at {l.address:#x}", case)
                    seen[l.address] = v.name
                    if l.type_.name == "NVM_RW_L" and not bank.has_lock:
                        add_violation(res, f"C11:lockable-without-lock:{bname}", f"{v.name} lockable in a bank without lock byte", case)
            res["evaluations"] += 1
        sample(res, {"layout_rows": len(rows), "banks": list(M.BANKS)})
        return res
    if k == "declare":
        # the layout rules the library enforces on EVERY declaration (its documented extension point): all access-type
        # tuples of 1..3 locations x bank kinds (lock byte / latch / neither / both), declared in a bank of this shard's own
        # process; then every overlapping second declaration
        import itertools
        from dali.memory.location import (MemoryBank, MemoryLocation, MemoryType, NumericValue, LockingNotSupported,
                                          MemoryLocationOverlap)
        types = list(MemoryType)
        n = 0
        for has_lock, has_latch in ((False, False), (False, True), (True, False), (True, True)):
            for L in (1, 2, 3):
                for tt in itertools.product(types, repeat=L):
                    for order in ("ascending", "descending"):
                        bank = MemoryBank(40 + n % 150, 0x30, has_lock=has_lock, has_latch=has_latch)
                        addrs = list(range(0x10, 0x10 + L))
                        if order == "descending":
                            if L == 1:
                                continue
                            addrs.reverse()
                        locs = tuple(MemoryLocation(a, type_=t) for a, t in zip(addrs, tt))
                        case = {"t": "declare", "types": [t.name for t in tt], "lock": has_lock, "latch": has_latch, "order": order}
                        n += 1
                        lockable = any(t is MemoryType.NVM_RW_L for t in tt)
                        try:
                            cls = type("UserValue", (NumericValue,), {"bank": bank, "locations": locs})
                            out = "accepted"
                        except LockingNotSupported:
                            out = "LockingNotSupported"
                        except Exception as e:
                            out = type(e).__name__
                        want = "LockingNotSupported" if lockable and not has_lock else "accepted"
                        if out != want:
                            add_violation(res, f"C11:declare:{'lockable-accepted-without-lock-byte' if out == 'accepted' else 'refused'}",
                                          f"declaring a value with access types {[t.name for t in tt]} ({order}) in a bank with has_lock={has_lock}, "
                                          f"has_latch={has_latch}: {out}, expected {want}", case)
                        for a, e in bank.locations.items():
                            if e is not None and e.memory_location.type_ is MemoryType.NVM_RW_L and not has_lock:
                                add_violation(res, "C11:declare:lockable-location-registered-without-lock-byte",
                                              f"after declaring {[t.name for t in tt]} ({order}) the bank without lock byte has a lockable location at {a:#x}", case)
                                break
                        res["distinct"].add(("declare", out, L))
        # overlap: a second value touching any location of the first is refused, a disjoint one accepted
        for first in ((0x10, 0x11, 0x12), (0x12, 0x11, 0x10), (0x20,)):
            for second in itertools.chain(((a,) for a in range(0x0E, 0x16)), ((a, a + 1) for a in range(0x0D, 0x15)), ((a + 1, a) for a in range(0x0D, 0x15)),
                                          ((0x1F, 0x20), (0x20, 0x21), (0x21, 0x22), (0x02,), (0x00,), (0x03,))):
                bank = MemoryBank(200, 0x30, has_lock=True)
                type("First", (NumericValue,), {"bank": bank, "locations": tuple(MemoryLocation(a, type_=MemoryType.NVM_RW) for a in first)})
                case = {"t": "declare", "first": list(first), "second": list(second)}
                n += 1
                try:
                    type("Second", (NumericValue,), {"bank": bank, "locations": tuple(MemoryLocation(a, type_=MemoryType.NVM_RW) for a in second)})
                    out = "accepted"
                except MemoryLocationOverlap:
                    out = "MemoryLocationOverlap"
                except Exception as e:
                    out = type(e).__name__
                header = {0x00, 0x02} & set(second)          # last-address and lock byte are declared by the bank itself
                want = "MemoryLocationOverlap" if (set(first) | header) & set(second) else "accepted"
                if out != want:
                    add_violation(res, "C11:declare:overlap", f"value at {[hex(a) for a in first]} declared, then one at {[hex(a) for a in second]}: {out}, expected {want}", case)
                res["distinct"].add(("overlap", out))
        res["evaluations"] += n
        sample(res, {"declarations": n, "access_types": [t.name for t in types]})
        return res
    if k == "limits":
        # range limits of user-declared numeric values, zero and negative limits included: "range limits produce Invalid"
        import itertools
        from dali.memory.location import MemoryBank, MemoryLocation, MemoryType, NumericValue, FlagValue
        n = 0
        for width, signed in ((1, False), (1, True), (2, True), (2, False)):
            lims = [None, 0, 1, 100, -50, -1, 0xFD] if width == 1 else [None, 0, -1, 1000, -300]
            for lo, hi in itertools.product(lims, repeat=2):
                if lo is not None and hi is not None and lo > hi:
                    continue
                if not signed and ((lo is not None and lo < 0) or (hi is not None and hi < 0)):
                    continue
                bank = MemoryBank(60, 0x40)
                locs = tuple(MemoryLocation(0x10 + i, type_=MemoryType.ROM) for i in range(width))
                cls = type("Limited", (NumericValue,), {"bank": bank, "locations": locs, "signed": signed, "min_value": lo, "max_value": hi})
                raws = range(256) if width == 1 else sorted(set(list(range(0, 65536, 257)) + [0, 1, 2, 0x7FFE, 0x7FFF, 0x8000, 0x8001, 0xFED4, 0xFFFE, 0xFFFF, 1000, 1001, 999]))
                for rv in raws:
                    raw = rv.to_bytes(width, "big")
                    num = int.from_bytes(raw, "big", signed=signed)
                    want = "Invalid" if (lo is not None and num < lo) or (hi is not None and num > hi) else num
                    lst = [None] * 255
                    for i, b in enumerate(raw):
                        lst[0x10 + i] = b
                    n += 1
                    try:
                        got = cls.from_list(lst)
                    except Exception as e:
                        got = "EXC:" + repr(e)
                    gotn = got.name if isinstance(got, FlagValue) else got
                    if gotn != want or (want != "Invalid" and type(got) is not int):
                        add_violation(res, "C11:limits", f"user numeric value (width {width}, signed={signed}, min_value={lo}, max_value={hi}) raw {raw.hex()}: "
                                      f"{got!r}, the limits say {want!r}", {"t": "limits"})
                        break
                res["distinct"].add(("limits", width, signed, lo is None, hi is None))
        # user-declared SCALED numbers, signed ones included ("sign- and scale-byte aware", "scaled numbers ... follow their
        # documented encodings"): the value is scaling_factor x the (signed) big-endian number, MASK / TMASK sit at the signed
        # all-ones patterns 0x7F.. / 0x7F..FE, and the limits apply to the unscaled number exactly as for a plain number
        import decimal
        from dali.memory.location import FixedScaleNumericValue
        for width, signed in ((1, False), (1, True), (2, True), (2, False)):
            for factor in (decimal.Decimal("0.1"), 10):
                for lo, hi, masks in ((None, None, False), (-40 if signed else 0, 100, True), (0, None, False)):
                    bank = MemoryBank(62, 0x40)
                    locs = tuple(MemoryLocation(0x10 + i, type_=MemoryType.ROM) for i in range(width))
                    cls = type("Scaled", (FixedScaleNumericValue,), {"bank": bank, "locations": locs, "signed": signed, "min_value": lo, "max_value": hi,
                                                                     "scaling_factor": factor, "mask_supported": masks, "tmask_supported": masks})
                    top = (1 << (8 * width - (1 if signed else 0))) - 1         # the all-ones pattern of the value's own number range
                    raws = range(256) if width == 1 else sorted(set(list(range(0, 65536, 257)) + [0, 1, 2, 100, 101, 0x7FFD, 0x7FFE, 0x7FFF, 0x8000, 0x8001,
                                                                                                     0xFFD7, 0xFFD8, 0xFFD9, 0xFFFD, 0xFFFE, 0xFFFF]))
                    for rv in raws:
                        raw = rv.to_bytes(width, "big")
                        num = int.from_bytes(raw, "big", signed=signed)
                        if masks and rv == top:
                            want = "MASK"
                        elif masks and rv == top - 1:
                            want = "TMASK"
                        elif (lo is not None and num < lo) or (hi is not None and num > hi):
                            want = "Invalid"
                        else:
                            want = factor * num
                        lst = [None] * 255
                        for i, b in enumerate(raw):
                            lst[0x10 + i] = b
                        n += 1
                        try:
                            got = cls.from_list(lst)
                        except Exception as e:
                            got = "EXC:" + repr(e)
                        gotn = got.name if isinstance(got, FlagValue) else got
                        if gotn != want:
                            add_violation(res, "C11:scaled-user-value", f"user fixed-scale value (width {width}, signed={signed}, factor {factor}, min_value={lo}, "
                                          f"max_value={hi}, masks={masks}) raw {raw.hex()}: {got!r}, the declaration says {want!r}", {"t": "limits"})
                            break
                    res["distinct"].add(("scaled", width, signed, str(factor), masks))
        # locations "in the order required by the value": LSB first, with a gap, three bytes reversed - interpretation takes the bytes
        # at the DECLARED addresses in declared order (MASK / TMASK patterns included), whatever the neighbouring bytes are
        for addrs in ((0x13, 0x12), (0x20, 0x22), (0x2A, 0x29, 0x28), (0x30, 0x31)):
            bank = MemoryBank(61, 0x40)
            cls = type("Ordered", (NumericValue,), {"bank": bank, "locations": tuple(MemoryLocation(a, type_=MemoryType.ROM) for a in addrs),
                                                   "mask_supported": True, "tmask_supported": True})
            w = len(addrs)
            ones = (1 << (8 * w)) - 1
            for num in (0, 1, 0x1234 & ones, 0xFF00 & ones, 0x00FF, ones, ones - 1, ones - 2, 0xFE01 & ones, 0xABCDEF & ones):
                for filler in (0x00, 0xFF, 0x5A):
                    raw = num.to_bytes(w, "big")
                    lst = [filler] * 255
                    for a, b in zip(addrs, raw):
                        lst[a] = b
                    want = "MASK" if num == ones else "TMASK" if num == ones - 1 else num
                    n += 1
                    try:
                        got = cls.from_list(lst)
                    except Exception as e:
                        got = "EXC:" + repr(e)
                    gotn = got.name if isinstance(got, FlagValue) else got
                    if gotn != want:
                        add_violation(res, "C11:declared-order", f"user value with locations {[hex(a) for a in addrs]} holding {raw.hex()} (other bytes {filler:#04x}): "
                                      f"{got!r}, expected {want!r}", {"t": "limits"})
            res["distinct"].add(("declared-order", addrs))
        res["evaluations"] += n
        sample(res, {"limit_decodes": n})
        return res
    if k == "derived":
        # values an application derives from the library's declared ones for a vendor bank (same encoding and limits) with the
        # MASK / TMASK conventions switched off: "recognised ... when the value supports them" - and only then
        import itertools
        from dali.memory.location import MemoryBank, MemoryLocation, MemoryType
        tier = shard[1]
        n = 0
        for i, (key, row) in enumerate(rows.items()):
            cls = vals.get(key)
            if cls is None or row[2] not in ("numeric", "fixedscale", "temperature", "scaled", "cct") or not (row[6] or row[7]):
                continue
            if len(shard) > 3 and i % shard[3] != shard[2]:
                continue
            for ms, ts in itertools.product((False, True), repeat=2):
                if (ms and not row[6]) or (ts and not row[7]) or (ms, ts) == (row[6], row[7]):
                    continue
                vbank = MemoryBank(100 + (i % 100), 0xFE, has_lock=True)
                locs = tuple(MemoryLocation(l.address, type_=l.type_) for l in cls.locations)
                try:
                    sub = type("Vendor" + key[1], (cls,), {"bank": vbank, "locations": locs, "mask_supported": ms, "tmask_supported": ts})
                except Exception as e:
                    add_violation(res, f"C11:derived:declare-raises:{key[1]}", f"deriving a vendor value from {key[1]}: {e!r}", {"t": "derived", "name": key[1]})
                    continue
                row2 = row[:6] + (ms, ts) + row[8:]
                nv0 = len(res["violations"])
                for raw in raws_for(row, tier):
                    check_value(res, sub, row2, raw)
                    n += 1
                for v in res["violations"][nv0:]:
                    v["key"] = v["key"].replace("C11:", "C11:derived:", 1)
                    v["message"] = f"[user subclass of {key[1]} with mask_supported={ms}, tmask_supported={ts}] " + v["message"]
                    v["case"] = {"t": "derived", "name": key[1]}
                res["distinct"].add(("derived", key[1], ms, ts))
        res["evaluations"] += n
        sample(res, {"derived_values_decoded": n})
        return res
    if k == "value":
        _, bname, name, tier, part, parts = shard
        row = rows[(bname, name)]
        cls = vals.get((bname, name))
        if cls is None:
            add_violation(res, f"C11:layout-missing:{name}", "value not declared", {"t": "layout", "bank": bname, "name": name})
            res["evaluations"] = 1
            return res
        n = 0
        if M.width(row) == 3 and tier == "thorough":
            span = (1 << 24) // parts
            it = ((0, v.to_bytes(3, "big")) for v in range(part * span, (part + 1) * span))
            parts, part = 1, 0
        else:
            it = enumerate(raws_for(row, tier))
        for i, raw in it:
            if i % parts != part:
                continue
            r = check_value(res, cls, row, raw)
            res["distinct"].add((name, r))
            n += 1
        res["evaluations"] += n
        sample(res, {"value": name, "bank": bname, "width": M.width(row), "raws": n})
        return res
    if k == "inverse":
        tier = shard[1]
        for key, row in rows.items():
            cls = vals.get(key)
            if cls is None:
                continue
            w = M.width(row)
            if row[2] == "numeric":
                ones = (1 << (8 * w)) - 1
                if w <= 2:
                    nums = range(ones + 1)
                else:
                    nums = sorted({0, 1, 255, 256, 65535, 65536, ones // 2, ones - 3, ones - 2, ones - 1, ones} |
                                  {x for lim in (row[8], row[9]) if lim is not None for x in range(max(0, lim - 2), min(ones, lim + 2) + 1)})
                for n in nums:
                    res["evaluations"] += 1
                    case = {"t": "inverse", "bank": key[0], "name": key[1], "n": n}
                    try:
                        raw = cls.value_to_raw(n)
                    except Exception as e:
                        add_violation(res, f"C11:inverse-raises:{key[1]}", f"{key[1]}.value_to_raw({n}) raised {e!r}", case)
                        continue
                    if bytes(raw) != n.to_bytes(w, "big"):
                        add_violation(res, f"C11:inverse-bytes:{key[1]}", f"{key[1]}.value_to_raw({n}) -> {bytes(raw).hex()}", case)
                    exp = M.ref_decode(row, raw)
                    if not any(exp is f for f in (M.MASK, M.TMASK, M.INVALID)):
                        back = cls.raw_to_value(bytes(raw))
                        if back != n:
                            add_violation(res, f"C11:inverse-roundtrip:{key[1]}", f"{key[1]}: {n} -> {bytes(raw).hex()} -> {back}", case)
                for lit, flag, sup in (("MASK", row[6], (1 << (8 * w)) - 1), ("TMASK", row[7], (1 << (8 * w)) - 2)):
                    if flag:
                        raw = cls.value_to_raw(lit)
                        if bytes(raw) != sup.to_bytes(w, "big"):
                            add_violation(res, f"C11:inverse-literal:{key[1]}", f"{key[1]}.value_to_raw({lit}) -> {bytes(raw).hex()}", {"t": "inverse", "bank": key[0], "name": key[1], "n": lit})
                for bad in (-1, ones + 1, 1.5, "x", None):
                    try:
                        cls.value_to_raw(bad)
                        add_violation(res, f"C11:inverse-accepts:{key[1]}", f"{key[1]}.value_to_raw({bad!r}) accepted", {"t": "inverse", "bank": key[0], "name": key[1], "n": repr(bad)})
                    except Exception:
                        pass
                res["distinct"].add(("inverse", key[1]))
            elif row[2] == "string":
                strs = [""] + ["a" * k for k in range(1, w + 1)] + ["A" * k + "~" for k in range(0, w)] + \
                       ["\x01" * k for k in (1, w)] + ["\x7f" * k for k in (1, w - 1, w)] + ["Hello World"[:w], " x "]
                for s in strs:
                    res["evaluations"] += 1
                    case = {"t": "inverse", "bank": key[0], "name": key[1], "n": s}
                    try:
                        raw = cls.value_to_raw(s)
                    except Exception as e:
                        add_violation(res, f"C11:inverse-raises:{key[1]}", f"{key[1]}.value_to_raw({s!r}) raised {e!r}", case)
                        continue
                    if len(raw) > w or bytes(raw[:len(s)]) != s.encode("ascii"):
                        add_violation(res, f"C11:inverse-bytes:{key[1]}", f"{key[1]}.value_to_raw({s!r}) -> {bytes(raw)!r}", case)
                    padded = bytes(raw) + b"\x00" * (w - len(raw))
                    if M.ref_decode(row, padded) != s or cls.raw_to_value(bytes(raw)) != s or cls.raw_to_value(padded) != s:
                        add_violation(res, f"C11:inverse-roundtrip:{key[1]}", f"{key[1]}: {s!r} does not read back", case)
                    # the raw bytes are written over whatever the field held: a shorter string must carry its terminator
                    for stale in (b"Z", b"\xff"):
                        over = bytes(raw) + stale * (w - len(raw))
                        if M.ref_decode(row, over) != s or cls.raw_to_value(over) != s:
                            add_violation(res, f"C11:inverse-not-terminated:{key[1]}", f"{key[1]}.value_to_raw({s!r}) -> {bytes(raw)!r}: written over a field "
                                          f"holding {stale!r} bytes it reads back as {M.ref_decode(row, over)!r}", case)
                            break
                for bad in ("x" * (w + 1),):
                    try:
                        cls.value_to_raw(bad)
                        add_violation(res, f"C11:inverse-accepts:{key[1]}", f"{key[1]}.value_to_raw(too long) accepted", {"t": "inverse", "bank": key[0], "name": key[1], "n": "toolong"})
                    except Exception:
                        pass
                res["distinct"].add(("inverse", key[1]))
            elif row[2] in ("temperature", "fixedscale") and M.writable(row):
                # observation only (outside the statement): write(v) then read() disagree
                raw = bytes([0x55] * w)
                v = cls.raw_to_value(raw)
                try:
                    if bytes(cls.value_to_raw(v)) != raw:
                        observe(res, "value_to_raw_not_inverse_for_offset_or_scaled_value")
                except Exception:
                    observe(res, "value_to_raw_not_inverse_for_offset_or_scaled_value")
        sample(res, {"inverse": "plain numeric + string values"})
        return res
    raise AssertionError(shard)


def replay(case):
    res = new_result()
    vals = lib_values()
    rows = M.by_name()
    t = case["t"]
    if t == "value":
        row = rows[(case["bank"], case["name"])]
        r = check_value(res, vals[(case["bank"], case["name"])], row, bytes.fromhex(case["raw"]))
        print("   reference:", M.ref_decode(row, bytes.fromhex(case["raw"])))
        return res["violations"]
    if t == "layout":
        return run_shard(("layout",))["violations"]
    if t == "declare":
        return run_shard(("declare",))["violations"]
    if t == "limits":
        return run_shard(("limits",))["violations"]
    if t == "derived":
        return [v for p in range(8) for v in run_shard(("derived", "quick", p, 8))["violations"] if v["case"] == case]
    return run_shard(("inverse", "quick"))["violations"]
