"""Reference encoders for the gateway wire formats (oracle for C18).

Transcribed from the struct templates, constants and field comments of the driver modules
(the vendor protocol documents are not available offline): the check establishes internal
consistency with the documented format and catches arithmetic slips (shift, checksum span,
flag bit, alignment); it cannot prove a comment wrong.  All functions take (bits, value,
sendtwice, ...) as plain integers.
"""
from functools import reduce
from operator import xor


def tridonic_hid(bits, value, twice, seq):
    """cmd 0x12, seq, ctrl (0x20 = send twice), mode (3 = DALI16, 6 = DALI24), frame right-aligned in 4 bytes, 56 pad"""
    mode = {16: 3, 24: 6}[bits]
    return bytes([0x12, seq, 0x20 if twice else 0, mode]) + value.to_bytes(4, "big") + bytes(56)


def hasseb_hid(bits, value, twice):
    """two bytes big-endian, written once (twice for send-twice commands)"""
    assert bits == 16
    return [value.to_bytes(2, "big")] * (2 if twice else 1)


def luba(bits, value, twice, priority):
    """59 32 07 00 bits mode d0 d1 d2 00 xor(cmd..pad); mode = priority | 0x80 if send twice"""
    d = list(value.to_bytes(bits // 8, "big")) + ([0] if bits == 16 else [])
    body = [0x32, 7, 0, bits, priority | (0x80 if twice else 0)] + d + [0]
    return bytes([0x59] + body + [reduce(xor, body)])


def luba_priority(is_standard_gear_cmd, is_dapc, is_query, twice):
    """comment in send_dali_command: standard commands (no answer, not send-twice) and DAPC -> 2, others -> 5"""
    return 2 if ((is_standard_gear_cmd and not is_query and not twice) or is_dapc) else 5


def sci(bits, value, twice):
    """control hi mid lo xor; control = monitor 0x80 | echo 0x20 | send-twice 0x10 | mode (2=8 bit, 3=16 bit, 8=24 bit);
    data left-aligned in (hi, mid, lo) as the driver transmits it"""
    mode = {8: 2, 16: 3, 24: 8}[bits]
    ctl = 0x80 | 0x20 | (0x10 if twice else 0) | mode
    d = list(value.to_bytes(bits // 8, "big")) + [0, 0, 0]
    b = [ctl] + d[:3]
    return bytes(b + [reduce(xor, b)])


def daliserver(bits, value):
    """02 00 addr cmd"""
    assert bits == 16
    return bytes([2, 0]) + value.to_bytes(2, "big")


def atx(bits, value, twice):
    """prefix j/h/l/m by size (t = 16 bit sent twice), hex digits, LF"""
    prefix = {8: "j", 16: "h", 24: "l", 25: "m"}[bits]
    if twice and bits == 16:
        prefix = "t"
    nbytes = (bits + 7) // 8
    return (prefix + value.to_bytes(nbytes, "big").hex().upper() + "\n").encode("ascii")


def tridonic_legacy(bits, value, seq, twice=False):
    """dr 0x12, sn, 00, ty 0x03, 00, ec 00, ad, cm, 56 pad"""
    assert bits == 16
    return bytes([0x12, seq, 0, 3, 0, 0, value >> 8, value & 0xFF]) + bytes(56)


def hasseb_legacy(bits, value, seq, is_query, twice):
    """AA 07 sn 16 expect_reply settling(0) send_twice_delay(10|0) hi lo 00"""
    assert bits == 16
    return bytes([0xAA, 0x07, seq, 16, 1 if is_query else 0, 0, 10 if twice else 0, value >> 8, value & 0xFF, 0])


def unipi(bits, value, twice):
    """reg1 = opt << 8 (| address byte for 24 bit), reg2 = remaining 16 bits; opt 2 = 16 bit, 3 = 24 bit, | 8 = twice"""
    opt = {16: 2, 24: 3}[bits] | (8 if twice else 0)
    if bits == 16:
        return (opt << 8, value)
    return ((opt << 8) | (value >> 16), value & 0xFFFF)
