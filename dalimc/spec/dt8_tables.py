"""IEC 62386-209 selector tables (literal; provenance 'std' = transcribed from the standard's tables).

QUERY COLOUR VALUE (command 250) - DTR0 selector, Table 11.  STORE COLOUR TEMPERATURE Tc LIMIT (command 242) - DTR2
selector.  The names are those the library gives its enum members; the numbers are the standard's.
"""
QUERY_COLOUR_VALUE_DTR = {
    "XCoordinate": 0, "YCoordinate": 1, "ColourTemperatureTC": 2,
    "PrimaryNDimLevel0": 3, "PrimaryNDimLevel1": 4, "PrimaryNDimLevel2": 5, "PrimaryNDimLevel3": 6, "PrimaryNDimLevel4": 7, "PrimaryNDimLevel5": 8,
    "RedDimLevel": 9, "GreenDimLevel": 10, "BlueDimLevel": 11, "WhiteDimLevel": 12, "AmberDimLevel": 13, "FreecolourDimLevel": 14, "RGBWAFControl": 15,
    "XCoordinatePrimaryN0": 64, "YCoordinatePrimaryN0": 65, "TYPrimaryN0": 66, "XCoordinatePrimaryN1": 67, "YCoordinatePrimaryN1": 68, "TYPrimaryN1": 69,
    "XCoordinatePrimaryN2": 70, "YCoordinatePrimaryN2": 71, "TYPrimaryN2": 72, "XCoordinatePrimaryN3": 73, "YCoordinatePrimaryN3": 74, "TYPrimaryN3": 75,
    "XCoordinatePrimaryN4": 76, "YCoordinatePrimaryN4": 77, "TYPrimaryN4": 78, "XCoordinatePrimaryN5": 79, "YCoordinatePrimaryN5": 80, "TYPrimaryN5": 81,
    "NumberOfPrimaries": 82,
    "ColourTemperatureTcCoolest": 128, "ColourTemperatureTcPhysicalCoolest": 129, "ColourTemperatureTcWarmest": 130, "ColourTemperatureTcPhysicalWarmest": 131,
    "TemporaryXCoordinate": 192, "TemporaryYCoordinate": 193, "TemporaryColourTemperature": 194,
    "TemporaryPrimaryNDimLevel0": 195, "TemporaryPrimaryNDimLevel1": 196, "TemporaryPrimaryNDimLevel2": 197, "TemporaryPrimaryNDimLevel3": 198,
    "TemporaryPrimaryNDimLevel4": 199, "TemporaryPrimaryNDimLevel5": 200,
    "TemporaryRedDimLevel": 201, "TemporaryGreenDimLevel": 202, "TemporaryBlueDimLevel": 203, "TemporaryWhiteDimLevel": 204, "TemporaryAmberDimLevel": 205,
    "TemporaryFreecolourDimLevel": 206, "TemporaryRgbwafControl": 207, "TemporaryColourType": 208,
    "ReportXCoordinate": 224, "ReportYCoordinate": 225, "ReportColourTemperatureTc": 226,
    "ReportPrimaryNDimLevel0": 227, "ReportPrimaryNDimLevel1": 228, "ReportPrimaryNDimLevel2": 229, "ReportPrimaryNDimLevel3": 230,
    "ReportPrimaryNDimLevel4": 231, "ReportPrimaryNDimLevel5": 232,
    "ReportRedDimLevel": 233, "ReportGreenDimLevel": 234, "ReportBlueDimLevel": 235, "ReportWhiteDimLevel": 236, "ReportAmberDimLevel": 237,
    "ReportFreecolourDimLevel": 238, "ReportRgbwafControl": 239, "ReportColourType": 240,
}

# command 242: DTR2 = 0 Tc coolest, 1 Tc warmest, 2 physical coolest, 3 physical warmest
STORE_TC_LIMIT_DTR2 = {"TcCoolest": 0, "TcWarmest": 1, "TcPhysicalCoolest": 2, "TcPhysicalWarmest": 3}

# which QUERY COLOUR VALUE selector reads back the limit stored with each DTR2 selector
LIMIT_READBACK = {"TcCoolest": "ColourTemperatureTcCoolest", "TcWarmest": "ColourTemperatureTcWarmest",
                  "TcPhysicalCoolest": "ColourTemperatureTcPhysicalCoolest", "TcPhysicalWarmest": "ColourTemperatureTcPhysicalWarmest"}
