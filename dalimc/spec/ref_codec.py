"""Table-driven reference encoder/decoder for DALI forward frames.

Independent of dali.*: works on plain integers and the literal tables of
iec62386_tables.  A decoded/encoded command is described by a *descriptor*

    (module, classname, args)      args = tuple of plain values

Address descriptors: ("short", n) ("group", n) ("broadcast",) ("unaddressed",)
Instance descriptors: (kind, n) / (kind,) with kind one of
    InstanceNumber InstanceGroup InstanceType FeatureInstanceNumber
    FeatureInstanceGroup FeatureInstanceType FeatureInstanceBroadcast
    InstanceBroadcast FeatureDevice Device ReservedInstance
"""
from . import iec62386_tables as T

# ----------------------------------------------------------------------------- addresses


def gear_addr(a7):
    """IEC 62386-102 7.2: address byte bits 7..1 (the 7 bits above the selector bit)."""
    if a7 >> 6 == 0:
        return ("short", a7 & 0x3F)
    if a7 >> 4 == 0b100:
        return ("group", a7 & 0x0F)
    if a7 == 0x7F:
        return ("broadcast",)
    if a7 == 0x7E:
        return ("unaddressed",)
    return None


def gear_addr_bits(addr):
    k = addr[0]
    if k == "short":
        return addr[1]
    if k == "group":
        return 0x40 | addr[1]
    if k == "broadcast":
        return 0x7F
    if k == "unaddressed":
        return 0x7E
    raise ValueError(addr)


def dev_addr(a7):
    """IEC 62386-103 7.2.1.2: bits 23..17 of a command frame (bit 16 = 1)."""
    if a7 >> 6 == 0:
        return ("short", a7 & 0x3F)
    if a7 >> 5 == 0b10:
        return ("group", a7 & 0x1F)
    if a7 == 0x7F:
        return ("broadcast",)
    if a7 == 0x7E:
        return ("unaddressed",)
    return None


def dev_addr_bits(addr):
    k = addr[0]
    if k == "short":
        return addr[1]
    if k == "group":
        return 0x40 | addr[1]
    if k == "broadcast":
        return 0x7F
    if k == "unaddressed":
        return 0x7E
    raise ValueError(addr)


_INST_FLAGS = {0: "InstanceNumber", 4: "InstanceGroup", 6: "InstanceType",
               1: "FeatureInstanceNumber", 5: "FeatureInstanceGroup", 3: "FeatureInstanceType"}
_INST_SINGLE = {0xFD: "FeatureInstanceBroadcast", 0xFF: "InstanceBroadcast",
                0xFC: "FeatureDevice", 0xFE: "Device"}


def instance_kind(b):
    """IEC 62386-103 7.2.1.3 instance byte partition (256 entries)."""
    fl = b >> 5
    if fl in _INST_FLAGS:
        return (_INST_FLAGS[fl], b & 0x1F)
    if b in _INST_SINGLE:
        return (_INST_SINGLE[b],)
    return ("ReservedInstance", b)


def instance_byte(inst):
    k = inst[0]
    for fl, name in _INST_FLAGS.items():
        if name == k:
            return (fl << 5) | inst[1]
    for b, name in _INST_SINGLE.items():
        if name == k:
            return b
    if k == "ReservedInstance":
        return inst[1]
    raise ValueError(inst)


ALL_GEAR_ADDRS = [("short", n) for n in range(64)] + [("group", n) for n in range(16)] + \
    [("broadcast",), ("unaddressed",)]
ALL_DEV_ADDRS = [("short", n) for n in range(64)] + [("group", n) for n in range(32)] + \
    [("broadcast",), ("unaddressed",)]
ALL_INSTANCES = [(k, n) for k in _INST_FLAGS.values() for n in range(32)] + \
    [(k,) for k in _INST_SINGLE.values()]          # 196 legal instance bytes

# ----------------------------------------------------------------------------- lookup tables

GEAR_OPC = {}            # (dt, opcode) -> row
for r in T.GEAR_STD:
    mod, name, op, hasparam, dt, tw, ans, prov = r
    for x in range(16 if hasparam else 1):
        assert (dt, op + x) not in GEAR_OPC, r
        GEAR_OPC[(dt, op + x)] = r
GEAR_SPEC = {r[2]: r for r in T.GEAR_SPECIAL}
DEV_OPC = {r[2]: r for r in T.DEV_STD}
INST_OPC = {r[2]: r for r in T.DEV_INST}
DEV_SPEC0 = {(r[2], r[3]): r for r in T.DEV_SPECIAL if r[4] < 2}
DEV_SPEC2 = {r[2]: r for r in T.DEV_SPECIAL if r[4] == 2}
BY_NAME = {}
for _tab, _rows in (("GEAR_STD", T.GEAR_STD), ("GEAR_SPECIAL", T.GEAR_SPECIAL), ("DEV_STD", T.DEV_STD),
                    ("DEV_INST", T.DEV_INST), ("DEV_SPECIAL", T.DEV_SPECIAL)):
    for r in _rows:
        assert (r[0], r[1]) not in BY_NAME
        BY_NAME[(r[0], r[1])] = (_tab, r)

PUSHBUTTON = {0: "ButtonReleased", 1: "ButtonPressed", 2: "ShortPress", 5: "DoublePress",
              9: "LongPressStart", 11: "LongPressRepeat", 12: "LongPressStop",
              14: "ButtonFree", 15: "ButtonStuck"}        # IEC 62386-301 Table 2

UNKNOWN_GEAR = ("gear.general", "UnknownGearCommand")
UNKNOWN_DEV = ("device.general", "UnknownDeviceCommand")

# ----------------------------------------------------------------------------- decode


def decode16(v, dt=0):
    hi, lo = v >> 8, v & 0xFF
    addr = gear_addr(hi >> 1)
    if addr is not None:
        if not hi & 1:
            return ("gear.general", "DAPC", (addr, lo))
        r = GEAR_OPC.get((dt, lo))
        if r is None:
            return UNKNOWN_GEAR + ((v,),)
        if r[3]:
            return (r[0], r[1], (addr, lo & 0x0F))
        return (r[0], r[1], (addr,))
    r = GEAR_SPEC.get(hi)
    if r is None:
        return UNKNOWN_GEAR + ((v,),)
    pk = r[3]
    if pk == "none":
        return (r[0], r[1], ()) if lo == 0 else UNKNOWN_GEAR + ((v,),)
    if pk == "byte":
        return (r[0], r[1], (lo,))
    if pk == "shortaddr":
        if lo == 0xFF:
            return (r[0], r[1], ("MASK",))
        if lo & 0x81 == 0x01:
            return (r[0], r[1], (lo >> 1,))
        return UNKNOWN_GEAR + ((v,),)
    if pk == "initialise":
        if lo == 0:
            return (r[0], r[1], ("broadcast", None))
        if lo == 0xFF:
            return (r[0], r[1], ("unaddressed", None))
        if lo & 0x81 == 0x01:
            return (r[0], r[1], ("address", lo >> 1))
        return UNKNOWN_GEAR + ((v,),)
    raise AssertionError(pk)


def event_scheme(v):
    """IEC 62386-103 Table 3 (event source identification).  None = reserved."""
    b23, b22, b15 = (v >> 23) & 1, (v >> 22) & 1, (v >> 15) & 1
    if b23 == 0:
        return "device_instance" if b15 else "device"
    if b22 == 0:
        return "instance" if b15 else "device_group"
    return None if b15 else "instance_group"


def decode_event(v, maptype="nomap"):
    """Returns descriptor (module, name, fields) with fields a dict, or None (not an event).

    maptype: instance type the map resolves (short address, instance number) to, or None /
    "nomap" when there is no entry / no map.
    """
    sch = event_scheme(v)
    if sch is None:
        return None
    f2117 = (v >> 17) & 0x1F
    f2217 = (v >> 17) & 0x3F
    f1410 = (v >> 10) & 0x1F
    data = v & 0x3FF
    fields = dict(short=None, inum=None, igroup=None, dgroup=None, itype=None, data=data)
    if sch == "device":
        fields.update(short=f2217, itype=f1410)
    elif sch == "device_instance":
        fields.update(short=f2217, inum=f1410)
        if maptype in (None, "nomap"):
            return ("device.general", "AmbiguousInstanceType", fields)
        fields["itype"] = maptype
    elif sch == "device_group":
        fields.update(dgroup=f2117, itype=f1410)
    elif sch == "instance":
        fields.update(itype=f2117, inum=f1410)
    elif sch == "instance_group":
        fields.update(igroup=f2117, itype=f1410)
    t = fields["itype"]
    if t == 1 and data in PUSHBUTTON:
        fields["data"] = None        # the class is the data
        return ("device.pushbutton", PUSHBUTTON[data], fields)
    if t == 3 and data >> 4 == 0:
        fields["data"] = (bool(data & 1), bool(data & 2), bool(data & 4),
                          "movement" if data & 8 else "presence")
        return ("device.occupancy", "OccupancyEvent", fields)
    if t == 4:
        return ("device.light", "LightEvent", fields)
    return ("device.general", "UnknownEvent", fields)


def decode24(v, maptype="nomap"):
    if not (v >> 16) & 1:
        ev = decode_event(v, maptype)
        if ev is None:
            return ("command", "Command", (v,))
        return ev
    a8, ib, op = v >> 16, (v >> 8) & 0xFF, v & 0xFF
    addr = dev_addr(a8 >> 1)
    if addr is not None:
        if ib == 0xFE:
            r = DEV_OPC.get(op)
            if r is None:
                return UNKNOWN_DEV + ((v,),)
            return (r[0], r[1], (addr,))
        r = INST_OPC.get(op)
        if r is None:
            return UNKNOWN_DEV + ((v,),)
        return (r[0], r[1], (addr, instance_kind(ib)))
    r = DEV_SPEC2.get(a8)
    if r is not None:
        return (r[0], r[1], (ib, op))
    r = DEV_SPEC0.get((a8, ib))
    if r is None:
        return UNKNOWN_DEV + ((v,),)
    if r[4] == 1:
        return (r[0], r[1], (op,))
    return (r[0], r[1], ()) if op == 0 else UNKNOWN_DEV + ((v,),)


# ----------------------------------------------------------------------------- encode


def encode(desc):
    """descriptor -> (bits, value) straight from the standard's layout."""
    mod, name, args = desc
    if (mod, name) == ("gear.general", "DAPC"):
        addr, power = args
        return 16, (gear_addr_bits(addr) << 9) | power
    tab, r = BY_NAME[(mod, name)]
    if tab == "GEAR_STD":
        op = r[2] + (args[1] if r[3] else 0)
        return 16, (gear_addr_bits(args[0]) << 9) | 0x100 | op
    if tab == "GEAR_SPECIAL":
        pk = r[3]
        if pk == "none":
            lo = 0
        elif pk == "byte":
            lo = args[0]
        elif pk == "shortaddr":
            lo = 0xFF if args[0] == "MASK" else (args[0] << 1) | 1
        else:
            lo = {"broadcast": 0, "unaddressed": 0xFF}.get(args[0])
            if lo is None:
                lo = (args[1] << 1) | 1
        return 16, (r[2] << 8) | lo
    if tab == "DEV_STD":
        return 24, (dev_addr_bits(args[0]) << 17) | 0x10000 | (0xFE << 8) | r[2]
    if tab == "DEV_INST":
        return 24, (dev_addr_bits(args[0]) << 17) | 0x10000 | (instance_byte(args[1]) << 8) | r[2]
    if tab == "DEV_SPECIAL":
        if r[4] == 2:
            return 24, (r[2] << 16) | (args[0] << 8) | args[1]
        if r[4] == 1:
            return 24, (r[2] << 16) | (r[3] << 8) | args[0]
        return 24, (r[2] << 16) | (r[3] << 8)
    raise AssertionError(tab)


def encode_event(scheme, itype, data, short=None, inum=None, igroup=None, dgroup=None):
    """IEC 62386-103 Table 3 layout."""
    if scheme == "device":
        return (short << 17) | (itype << 10) | data
    if scheme == "device_instance":
        return (short << 17) | (1 << 15) | (inum << 10) | data
    if scheme == "device_group":
        return (1 << 23) | (dgroup << 17) | (itype << 10) | data
    if scheme == "instance":
        return (1 << 23) | (itype << 17) | (1 << 15) | (inum << 10) | data
    if scheme == "instance_group":
        return (3 << 22) | (igroup << 17) | (itype << 10) | data
    raise ValueError(scheme)


# ----------------------------------------------------------------------------- library side


def lib_addr(a):
    """dali.address object (or None) -> address descriptor, with family."""
    if a is None:
        return None
    n = type(a).__name__
    fam = "gear" if n.startswith("Gear") else "device" if n.startswith("Device") else "?"
    if n.endswith("BroadcastUnaddressed"):
        return ("unaddressed",), fam
    if n.endswith("Broadcast"):
        return ("broadcast",), fam
    if n.endswith("Short"):
        return ("short", a.address), fam
    if n.endswith("Group"):
        return ("group", a.group), fam
    return (n,), fam


def lib_instance(i):
    n = type(i).__name__
    if hasattr(i, "_value"):
        return (n, i._value)
    return (n,)


def describe(cmd):
    """Library command object -> descriptor comparable with decode16/decode24."""
    cls = type(cmd)
    mod = cls.__module__.replace("dali.", "", 1)
    name = cls.__name__
    key = (mod, name)
    fr = cmd.frame
    if name in ("UnknownGearCommand", "UnknownDeviceCommand", "Command"):
        return (mod, name, (fr.as_integer,))
    if key == ("gear.general", "DAPC"):
        a, fam = lib_addr(cmd.destination)
        assert fam == "gear"
        return (mod, name, (a, cmd.power))
    if hasattr(cmd, "short_address") and hasattr(cmd, "instance_type"):     # an event
        sa = cmd.short_address
        data = cmd.event_data
        if mod == "device.pushbutton":
            data = None
        elif name == "OccupancyEvent":
            data = tuple(data)
        fields = dict(short=None if sa is None else sa.address, inum=cmd.instance_number,
                      igroup=cmd.instance_group, dgroup=cmd.device_group,
                      itype=cmd.instance_type, data=data)
        return (mod, name, fields)
    tab, r = BY_NAME.get(key, (None, None))
    if tab == "GEAR_STD":
        a, fam = lib_addr(cmd.destination)
        assert fam == "gear", cmd.destination
        return (mod, name, (a, cmd.param) if r[3] else (a,))
    if tab == "GEAR_SPECIAL":
        pk = r[3]
        if pk == "none":
            return (mod, name, ())
        if pk == "byte":
            return (mod, name, (cmd.param,))
        if pk == "shortaddr":
            return (mod, name, (cmd.address,))
        if cmd.broadcast:
            return (mod, name, ("broadcast", None))
        if cmd.address is None:
            return (mod, name, ("unaddressed", None))
        return (mod, name, ("address", cmd.address))
    if tab == "DEV_STD":
        a, fam = lib_addr(cmd.destination)
        assert fam == "device", cmd.destination
        return (mod, name, (a,))
    if tab == "DEV_INST":
        a, fam = lib_addr(cmd.destination)
        assert fam == "device", cmd.destination
        return (mod, name, (a, lib_instance(cmd.instance)))
    if tab == "DEV_SPECIAL":
        if r[4] == 2:
            return (mod, name, (cmd.param_1, cmd.param_2))
        if r[4] == 1:
            return (mod, name, (cmd.param,))
        return (mod, name, ())
    return (mod, name, ("UNCLASSIFIED",))


def lib_mkaddr(addr, fam):
    from dali import address as A
    k = addr[0]
    if fam == "gear":
        return {"short": lambda: A.GearShort(addr[1]), "group": lambda: A.GearGroup(addr[1]),
                "broadcast": A.GearBroadcast, "unaddressed": A.GearBroadcastUnaddressed}[k]()
    return {"short": lambda: A.DeviceShort(addr[1]), "group": lambda: A.DeviceGroup(addr[1]),
            "broadcast": A.DeviceBroadcast, "unaddressed": A.DeviceBroadcastUnaddressed}[k]()


def lib_mkinstance(inst):
    from dali import address as A
    cls = getattr(A, inst[0])
    return cls(*inst[1:])


def table_sendtwice(desc):
    """Does the STANDARD require this command to be received twice (configuration command)?  From the literal tables."""
    row = BY_NAME.get((desc[0], desc[1]))
    if row is None:
        return False
    tab, r = row
    return bool(r[{"GEAR_STD": 5, "GEAR_SPECIAL": 4, "DEV_STD": 3, "DEV_INST": 3, "DEV_SPECIAL": 5}[tab]])
