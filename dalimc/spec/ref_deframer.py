"""Reference deframers for the Lunatone LUBA and SCI RS232 byte streams (oracle for C19).

Independent implementations of the grammar, written from the frame descriptions in
dali/driver/serial.py (class docstrings, field comments) - no code shared with the driver.

LUBA frame:  0x59  cmd  len  payload[len]  xor(cmd, len, payload...)
   * the receiver's frame buffer holds 24 bytes, so 1 <= len <= 20; any other length byte is
     rejected and scanning resumes with the byte AFTER the length byte
   * bad checksum: frame dropped, scanning resumes after the checksum byte
   * unknown cmd with good checksum: dropped
   * cmd 0x31 event: payload = tick(2) line status ...;  status = type<<6 | info
        type 0 (frame sent):      id, frame bytes       -> tx confirmation (id, bits, value)
        type 2 (frame received):  info 1..32 -> frame bytes: 1 byte -> backward value,
                                  2+ bytes -> observed forward frame (8*n bits); info 62/63/other -> nothing
   * cmd 0x33: len 2 accept / len 1 error -> nothing delivered;  0x21 (len 20) device info;
     0x2B settings (mode, event filter)
   * checksum-valid frames whose payload is malformed for their type (event shorter than its
     fixed fields, 0x33 with len not in {1,2}, 0x21 with len != 20) make the driver raise
     deliberately: the stream is *set aside*.

SCI frame: fixed 5 bytes  status hi mid lo xor(status,hi,mid,lo); no sync byte, so the frame
boundary is every 5th byte.  code = status & 0x0F: 0/1 system message (id, code); 2 backward
frame (lo); 3 16-bit frame (mid, lo); 8 24-bit frame; 7 error (lo = error code 1..5 -> system
message, other -> nothing); 4,5,6 unsupported -> nothing; others unknown -> nothing.
"""
from functools import reduce
from operator import xor

LUBA_MAX_PAYLOAD = 20
LUBA_KNOWN = {0x2A, 0x2B, 0x2C, 0x2D, 0x20, 0x21, 0x31, 0x32, 0x33, 0x34, 0x35, 0x36, 0x37}


def luba_deframe(stream):
    """Returns (items, set_aside).  items: list of
       ('raw', v) | ('txconf', id, nbits, value) | ('observed', nbits, value) | ('info', article) | ('settings', mode, filt)"""
    items, i, n = [], 0, len(stream)
    set_aside = False
    while i < n:
        if stream[i] != 0x59:
            i += 1
            continue
        if i + 2 >= n:
            break
        cmd, ln = stream[i + 1], stream[i + 2]
        if not (1 <= ln <= LUBA_MAX_PAYLOAD):
            i += 3
            continue
        if i + 3 + ln >= n:
            break                       # incomplete frame at the end of the stream
        payload = list(stream[i + 3:i + 3 + ln])
        chk = stream[i + 3 + ln]
        i += 4 + ln
        if reduce(xor, [cmd, ln] + payload) != chk:
            continue
        if cmd not in LUBA_KNOWN:
            continue
        if cmd == 0x31:
            if len(payload) < 4:
                set_aside = True
                break
            typ, info = payload[3] >> 6, payload[3] & 0x3F
            if typ == 0:
                if len(payload) < 5:
                    set_aside = True
                    break
                fb = payload[5:]
                items.append(("txconf", payload[4], 8 * len(fb), int.from_bytes(bytes(fb), "big")))
            elif typ == 2:
                if 1 <= info <= 32:
                    fb = payload[4:]
                    if len(fb) == 1:
                        items.append(("raw", fb[0]))
                    elif len(fb) >= 2:
                        items.append(("observed", 8 * len(fb), int.from_bytes(bytes(fb), "big")))
        elif cmd == 0x33:
            if ln not in (1, 2):
                set_aside = True
                break
        elif cmd == 0x21:
            if ln != 20:
                set_aside = True
                break
            items.append(("info", int.from_bytes(bytes(payload[16:20]), "big")))
        elif cmd == 0x2B:
            if ln < 2:
                set_aside = True        # the two settings bytes are not both present
                break
            items.append(("settings", payload[0], payload[1]))
    return items, set_aside


def sci_deframe(stream):
    """items: ('raw', v) | ('observed', nbits, value) | ('sys', id, code)"""
    items = []
    for i in range(0, len(stream) - 4, 5):
        st, hi, mid, lo, chk = stream[i:i + 5]
        if st ^ hi ^ mid ^ lo != chk:
            continue
        code = st & 0x0F
        if code in (0, 1):
            items.append(("sys", st >> 4, code))
        elif code == 2:
            items.append(("raw", lo))
        elif code == 3:
            items.append(("observed", 16, (mid << 8) | lo))
        elif code == 8:
            items.append(("observed", 24, (hi << 16) | (mid << 8) | lo))
        elif code == 7:
            if 1 <= lo <= 5:
                items.append(("sys", st >> 4, code))
    return items
