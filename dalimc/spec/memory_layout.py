"""Reference layout of the declared memory banks + reference value decoders (C09/C10/C11).

LITERAL DATA, laid out once from a dump of the pinned tree and reviewed against
IEC 62386-102:2014 Table 9 (bank 0) and 9.10.7 (bank 1), DiiA Part 251 (bank 1 extension),
Part 252 (banks 202-204) and Part 253 (banks 205-207).  Bank/location/width/access columns
of banks 0 and 1 are 'std' (known from the standard); the MASK/TMASK/range columns of banks
202-207 are 'pinned' where I cannot vouch for every flag from memory of the DiiA tables.

BANKS: name -> (module, bank address, default last location, has_lock, has_latch)
VALUES: (bank name, value name, kind, first, last, access types, mask, tmask, min, max, scale, prov)
 kind: numeric | version | string | binary | temperature | fixedscale | scaled | cct | lightdist
"""
from decimal import Decimal

BANKS = {
    'BANK_0': ('info', 0, 127, False, False),
    'BANK_0_legacy': ('info', 0, 14, False, False),
    'BANK_1': ('oem', 1, 119, True, False),
    'BANK_202': ('energy', 202, 15, False, True),
    'BANK_203': ('energy', 203, 15, False, True),
    'BANK_204': ('energy', 204, 15, False, True),
    'BANK_205': ('diagnostics', 205, 28, True, True),
    'BANK_206': ('diagnostics', 206, 32, True, True),
    'BANK_207': ('maintenance', 207, 7, True, False),
}

VALUES = [
    ('BANK_0', 'LastAddress', 'numeric', 0x00, 0x00, ('ROM',), False, False, None, None, None, 'std'),
    ('BANK_0', 'LastMemoryBank', 'numeric', 0x02, 0x02, ('ROM',), False, False, None, None, None, 'std'),
    ('BANK_0', 'GTIN', 'numeric', 0x03, 0x08, ('ROM',), False, False, None, None, None, 'std'),
    ('BANK_0', 'FirmwareVersion', 'version', 0x09, 0x0a, ('ROM',), False, False, None, None, None, 'std'),
    ('BANK_0', 'IdentificationNumber', 'numeric', 0x0b, 0x12, ('ROM',), False, False, None, None, None, 'std'),
    ('BANK_0', 'HardwareVersion', 'version', 0x13, 0x14, ('ROM',), False, False, None, None, None, 'std'),
    ('BANK_0', 'Part101Version', 'version', 0x15, 0x15, ('ROM',), False, False, None, None, None, 'std'),
    ('BANK_0', 'Part102Version', 'version', 0x16, 0x16, ('ROM',), False, False, None, None, None, 'std'),
    ('BANK_0', 'Part103Version', 'version', 0x17, 0x17, ('ROM',), False, False, None, None, None, 'std'),
    ('BANK_0', 'DeviceUnitCount', 'numeric', 0x18, 0x18, ('ROM',), False, False, None, 64, None, 'std'),
    ('BANK_0', 'GearUnitCount', 'numeric', 0x19, 0x19, ('ROM',), False, False, None, 64, None, 'std'),
    ('BANK_0', 'UnitIndex', 'numeric', 0x1a, 0x1a, ('ROM',), False, False, None, None, None, 'std'),
    ('BANK_0_legacy', 'LastAddress', 'numeric', 0x00, 0x00, ('ROM',), False, False, None, None, None, 'std'),
    ('BANK_0_legacy', 'LastMemoryBank_legacy', 'numeric', 0x02, 0x02, ('ROM',), False, False, None, None, None, 'std'),
    ('BANK_0_legacy', 'GTIN_legacy', 'numeric', 0x03, 0x08, ('ROM',), False, False, None, None, None, 'std'),
    ('BANK_0_legacy', 'FirmwareVersion_legacy', 'version', 0x09, 0x0a, ('ROM',), False, False, None, None, None, 'std'),
    ('BANK_0_legacy', 'IdentifictionNumber_legacy', 'numeric', 0x0b, 0x0e, ('ROM',), False, False, None, None, None, 'std'),
    ('BANK_1', 'LastAddress', 'numeric', 0x00, 0x00, ('ROM',), False, False, None, None, None, 'std'),
    ('BANK_1', 'LockByte', 'numeric', 0x02, 0x02, ('RAM_RW',), False, False, None, None, None, 'std'),
    ('BANK_1', 'ManufacturerGTIN', 'numeric', 0x03, 0x08, ('NVM_RW_L',), False, False, None, None, None, 'std'),
    ('BANK_1', 'LuminaireID', 'numeric', 0x09, 0x10, ('NVM_RW_L',), False, False, None, None, None, 'std'),
    ('BANK_1', 'ContentFormatID', 'numeric', 0x11, 0x12, ('NVM_RW_L',), False, False, None, None, None, 'std'),
    ('BANK_1', 'YearOfManufacture', 'numeric', 0x13, 0x13, ('NVM_RW_L',), True, False, None, 99, None, 'std'),
    ('BANK_1', 'WeekOfManufacture', 'numeric', 0x14, 0x14, ('NVM_RW_L',), True, False, 1, 53, None, 'std'),
    ('BANK_1', 'InputPowerNominal', 'numeric', 0x15, 0x16, ('NVM_RW_L',), True, False, None, None, None, 'std'),
    ('BANK_1', 'InputPowerMinimumDim', 'numeric', 0x17, 0x18, ('NVM_RW_L',), True, False, None, None, None, 'std'),
    ('BANK_1', 'MainsVoltageMinimum', 'numeric', 0x19, 0x1a, ('NVM_RW_L',), True, False, 90, 480, None, 'std'),
    ('BANK_1', 'MainsVoltageMaximum', 'numeric', 0x1b, 0x1c, ('NVM_RW_L',), True, False, 90, 480, None, 'std'),
    ('BANK_1', 'LightOutputNominal', 'numeric', 0x1d, 0x1f, ('NVM_RW_L',), True, False, None, None, None, 'std'),
    ('BANK_1', 'CRI', 'numeric', 0x20, 0x20, ('NVM_RW_L',), True, False, None, 100, None, 'std'),
    ('BANK_1', 'CCT', 'cct', 0x21, 0x22, ('NVM_RW_L',), True, False, None, 17000, None, 'std'),
    ('BANK_1', 'LightDistributionType', 'lightdist', 0x23, 0x23, ('NVM_RW_L',), True, False, None, None, None, 'std'),
    ('BANK_1', 'LuminaireColor', 'string', 0x24, 0x3b, ('NVM_RW_L',), False, False, None, None, None, 'std'),
    ('BANK_1', 'LuminaireIdentification', 'string', 0x3c, 0x77, ('NVM_RW_L',), False, False, None, None, None, 'std'),
    ('BANK_202', 'LastAddress', 'numeric', 0x00, 0x00, ('ROM',), False, False, None, None, None, 'pinned'),
    ('BANK_202', 'LockByte', 'numeric', 0x02, 0x02, ('RAM_RW',), False, False, None, None, None, 'pinned'),
    ('BANK_202', 'ActiveBankVersion', 'numeric', 0x03, 0x03, ('ROM',), False, False, None, None, None, 'pinned'),
    ('BANK_202', 'ActiveEnergy', 'scaled', 0x04, 0x0a, ('NVM_RO', 'ROM'), False, True, None, 281474976710653, None, 'pinned'),
    ('BANK_202', 'ActivePower', 'scaled', 0x0b, 0x0f, ('RAM_RO', 'ROM'), False, True, None, 4294967293, None, 'pinned'),
    ('BANK_203', 'LastAddress', 'numeric', 0x00, 0x00, ('ROM',), False, False, None, None, None, 'pinned'),
    ('BANK_203', 'LockByte', 'numeric', 0x02, 0x02, ('RAM_RW',), False, False, None, None, None, 'pinned'),
    ('BANK_203', 'ApparentBankVersion', 'numeric', 0x03, 0x03, ('ROM',), False, False, None, None, None, 'pinned'),
    ('BANK_203', 'ApparentEnergy', 'scaled', 0x04, 0x0a, ('NVM_RO', 'ROM'), False, True, None, 281474976710653, None, 'pinned'),
    ('BANK_203', 'ApparentPower', 'scaled', 0x0b, 0x0f, ('RAM_RO', 'ROM'), False, True, None, 4294967293, None, 'pinned'),
    ('BANK_204', 'LastAddress', 'numeric', 0x00, 0x00, ('ROM',), False, False, None, None, None, 'pinned'),
    ('BANK_204', 'LockByte', 'numeric', 0x02, 0x02, ('RAM_RW',), False, False, None, None, None, 'pinned'),
    ('BANK_204', 'LoadsideBankVersion', 'numeric', 0x03, 0x03, ('ROM',), False, False, None, None, None, 'pinned'),
    ('BANK_204', 'ActiveEnergyLoadside', 'scaled', 0x04, 0x0a, ('NVM_RO', 'ROM'), False, True, None, 281474976710653, None, 'pinned'),
    ('BANK_204', 'ActivePowerLoadside', 'scaled', 0x0b, 0x0f, ('RAM_RO', 'ROM'), False, True, None, 4294967293, None, 'pinned'),
    ('BANK_205', 'LastAddress', 'numeric', 0x00, 0x00, ('ROM',), False, False, None, None, None, 'pinned'),
    ('BANK_205', 'LockByte', 'numeric', 0x02, 0x02, ('RAM_RW',), False, False, None, None, None, 'pinned'),
    ('BANK_205', 'ControlGearDiagnosticBankVersion', 'numeric', 0x03, 0x03, ('ROM',), False, False, None, None, None, 'pinned'),
    ('BANK_205', 'ControlGearOperatingTime', 'numeric', 0x04, 0x07, ('NVM_RO',), False, True, None, 4294967293, None, 'pinned'),
    ('BANK_205', 'ControlGearStartCounter', 'numeric', 0x08, 0x0a, ('NVM_RO',), False, True, None, 16777213, None, 'pinned'),
    ('BANK_205', 'ControlGearExternalSupplyVoltage', 'fixedscale', 0x0b, 0x0c, ('RAM_RO',), True, True, None, 65533, Decimal('0.1'), 'pinned'),
    ('BANK_205', 'ControlGearExternalSupplyVoltageFrequency', 'numeric', 0x0d, 0x0d, ('RAM_RO',), True, True, None, 253, None, 'pinned'),
    ('BANK_205', 'ControlGearPowerFactor', 'fixedscale', 0x0e, 0x0e, ('RAM_RO',), True, True, None, 100, Decimal('0.01'), 'pinned'),
    ('BANK_205', 'ControlGearOverallFailureCondition', 'binary', 0x0f, 0x0f, ('RAM_RO',), False, True, None, None, None, 'pinned'),
    ('BANK_205', 'ControlGearOverallFailureConditionCounter', 'numeric', 0x10, 0x10, ('NVM_RO',), False, True, None, 253, None, 'pinned'),
    ('BANK_205', 'ControlGearExternalSupplyUndervoltage', 'binary', 0x11, 0x11, ('RAM_RO',), True, True, None, None, None, 'pinned'),
    ('BANK_205', 'ControlGearExternalSupplyUndervoltageCounter', 'numeric', 0x12, 0x12, ('NVM_RO',), True, True, None, 253, None, 'pinned'),
    ('BANK_205', 'ControlGearExternalSupplyOvervoltage', 'binary', 0x13, 0x13, ('RAM_RO',), True, True, None, None, None, 'pinned'),
    ('BANK_205', 'ControlGearExternalSupplyOvervoltageCounter', 'numeric', 0x14, 0x14, ('NVM_RO',), True, True, None, 253, None, 'pinned'),
    ('BANK_205', 'ControlGearOutputPowerLimitation', 'binary', 0x15, 0x15, ('RAM_RO',), True, True, None, None, None, 'pinned'),
    ('BANK_205', 'ControlGearOutputPowerLimitationCounter', 'numeric', 0x16, 0x16, ('NVM_RO',), True, True, None, 253, None, 'pinned'),
    ('BANK_205', 'ControlGearThermalDerating', 'binary', 0x17, 0x17, ('RAM_RO',), True, True, None, None, None, 'pinned'),
    ('BANK_205', 'ControlGearThermalDeratingCounter', 'numeric', 0x18, 0x18, ('NVM_RO',), True, True, None, 253, None, 'pinned'),
    ('BANK_205', 'ControlGearThermalShutdown', 'binary', 0x19, 0x19, ('RAM_RO',), True, True, None, None, None, 'pinned'),
    ('BANK_205', 'ControlGearThermalShutdownCounter', 'numeric', 0x1a, 0x1a, ('NVM_RO',), True, True, None, 253, None, 'pinned'),
    ('BANK_205', 'ControlGearTemperature', 'temperature', 0x1b, 0x1b, ('RAM_RO',), False, True, None, 253, None, 'pinned'),
    ('BANK_205', 'ControlGearOutputCurrentPercent', 'numeric', 0x1c, 0x1c, ('RAM_RO',), False, True, None, 100, None, 'pinned'),
    ('BANK_206', 'LastAddress', 'numeric', 0x00, 0x00, ('ROM',), False, False, None, None, None, 'pinned'),
    ('BANK_206', 'LockByte', 'numeric', 0x02, 0x02, ('RAM_RW',), False, False, None, None, None, 'pinned'),
    ('BANK_206', 'LightSourceDiagnosticBankVersion', 'numeric', 0x03, 0x03, ('ROM',), False, False, None, None, None, 'pinned'),
    ('BANK_206', 'LightSourceStartCounterResettable', 'numeric', 0x04, 0x06, ('NVM_RW',), False, True, None, 16777213, None, 'pinned'),
    ('BANK_206', 'LightSourceStartCounter', 'numeric', 0x07, 0x09, ('NVM_RO',), False, True, None, 16777213, None, 'pinned'),
    ('BANK_206', 'LightSourceOnTimeResettable', 'numeric', 0x0a, 0x0d, ('NVM_RW',), False, True, None, 4294967293, None, 'pinned'),
    ('BANK_206', 'LightSourceOnTime', 'numeric', 0x0e, 0x11, ('NVM_RO',), False, True, None, 4294967293, None, 'pinned'),
    ('BANK_206', 'LightSourceVoltage', 'fixedscale', 0x12, 0x13, ('RAM_RO',), False, True, None, 65533, Decimal('0.1'), 'pinned'),
    ('BANK_206', 'LightSourceCurrent', 'fixedscale', 0x14, 0x15, ('RAM_RO',), False, True, None, 65533, Decimal('0.001'), 'pinned'),
    ('BANK_206', 'LightSourceOverallFailureCondition', 'binary', 0x16, 0x16, ('RAM_RO',), False, True, None, None, None, 'pinned'),
    ('BANK_206', 'LightSourceOverallFailureConditionCounter', 'numeric', 0x17, 0x17, ('NVM_RO',), False, True, None, 253, None, 'pinned'),
    ('BANK_206', 'LightSourceShortCircuit', 'binary', 0x18, 0x18, ('RAM_RO',), True, True, None, None, None, 'pinned'),
    ('BANK_206', 'LightSourceShortCircuitCounter', 'numeric', 0x19, 0x19, ('NVM_RO',), True, True, None, 253, None, 'pinned'),
    ('BANK_206', 'LightSourceOpenCircuit', 'binary', 0x1a, 0x1a, ('RAM_RO',), True, True, None, None, None, 'pinned'),
    ('BANK_206', 'LightSourceOpenCircuitCounter', 'numeric', 0x1b, 0x1b, ('NVM_RO',), True, True, None, 253, None, 'pinned'),
    ('BANK_206', 'LightSourceThermalDerating', 'binary', 0x1c, 0x1c, ('RAM_RO',), True, True, None, None, None, 'pinned'),
    ('BANK_206', 'LightSourceThermalDeratingCounter', 'numeric', 0x1d, 0x1d, ('NVM_RO',), True, True, None, 253, None, 'pinned'),
    ('BANK_206', 'LightSourceThermalShutdown', 'binary', 0x1e, 0x1e, ('RAM_RO',), True, True, None, None, None, 'pinned'),
    ('BANK_206', 'LightSourceThermalShutdownCounter', 'numeric', 0x1f, 0x1f, ('NVM_RO',), True, True, None, 253, None, 'pinned'),
    ('BANK_206', 'LightSourceTemperature', 'temperature', 0x20, 0x20, ('RAM_RO',), True, True, None, 253, None, 'pinned'),
    ('BANK_207', 'LastAddress', 'numeric', 0x00, 0x00, ('ROM',), False, False, None, None, None, 'pinned'),
    ('BANK_207', 'LockByte', 'numeric', 0x02, 0x02, ('RAM_RW',), False, False, None, None, None, 'pinned'),
    ('BANK_207', 'LuminaireMaintenanceBankVersion', 'numeric', 0x03, 0x03, ('ROM',), False, False, None, None, None, 'pinned'),
    ('BANK_207', 'RatedMedianUsefulLifeOfLuminaire', 'fixedscale', 0x04, 0x04, ('NVM_RW_L',), True, True, None, 253, 1000, 'pinned'),
    ('BANK_207', 'InternalControlGearReferenceTemperature', 'temperature', 0x05, 0x05, ('NVM_RW_L',), True, True, None, 253, None, 'pinned'),
    ('BANK_207', 'RatedMedianUsefulLightSourceStarts', 'fixedscale', 0x06, 0x07, ('NVM_RW_L',), True, True, None, 65533, 100, 'pinned'),
]


# ----------------------------------------------------------------------------- reference decoders
class _Flag:
    """Reference flags are their own kind of object: never equal to a string value that happens to spell their name."""

    def __init__(self, name):
        self.name = name

    def __repr__(self):
        return "<flag %s>" % self.name


MASK, TMASK, INVALID = _Flag("MASK"), _Flag("TMASK"), _Flag("Invalid")
_FLAGS = {"MASK": MASK, "TMASK": TMASK, "Invalid": INVALID}
RW_TYPES = ("RAM_RW", "NVM_RW", "NVM_RW_L", "NVM_RW_P")
LIGHTDIST = {0: "not specified", 1: "Type I", 2: "Type II", 3: "Type III", 4: "Type IV", 5: "Type V"}


def by_name():
    return {(r[0], r[1]): r for r in VALUES}


def width(row):
    return row[4] - row[3] + 1


def writable(row):
    return all(t in RW_TYPES for t in row[5])


def lockable(row):
    return "NVM_RW_L" in row[5]


def ref_decode(row, raw):
    """Reference interpretation of *raw* (bytes, len == width) -> value | MASK | TMASK | Invalid.

    Written from the documented encodings: numbers MSB first; MASK = all ones, TMASK = all
    ones minus one (on the value bytes, i.e. without the scale byte of scaled values);
    out-of-range -> Invalid; temperature = n - 60; version x.y; boolean 0/1; ASCII up to the
    first NUL (non-ASCII -> Invalid); scaled = n * 10^s with s a signed byte in -6..6.
    """
    bank, name, kind, first, last, types, mask, tmask, vmin, vmax, scale, prov = row
    raw = bytes(raw)
    if kind == "string":
        s = raw.split(b"\x00")[0]
        if any(c > 0x7F for c in s):
            return INVALID
        return s.decode("ascii")
    body = raw
    if kind == "scaled":
        sb = raw[0]
        if 6 < sb < 0xFA:
            return INVALID
        body = raw[1:]
    n = int.from_bytes(body, "big")
    ones = (1 << (8 * len(body))) - 1
    if mask and n == ones:
        return MASK
    if tmask and n == ones - 1:
        return TMASK
    if kind == "cct" and n == 0xFFFE:
        return "Part 209 implemented"
    if kind == "binary":
        return bool(n) if n in (0, 1) else INVALID
    if kind == "lightdist":
        return LIGHTDIST.get(n, "reserved")
    if vmin is not None and n < vmin:
        return INVALID
    if vmax is not None and n > vmax:
        return INVALID
    if kind in ("numeric", "cct"):
        return n
    if kind == "fixedscale":
        return scale * n
    if kind == "temperature":
        return n - 60
    if kind == "version":
        if len(raw) == 1:
            return "not implemented" if n == 0xFF else f"{n >> 2}.{n & 3}"
        return ".".join(str(b) for b in raw)
    if kind == "scaled":
        e = sb - 256 if sb >= 0x80 else sb
        return n * (Decimal(10) ** e)
    raise AssertionError(kind)


def lib_norm(v):
    """Library result -> comparable plain value (FlagValue -> its name)."""
    if type(v).__name__ == "FlagValue":
        return _FLAGS[str(v.value)]
    return v
