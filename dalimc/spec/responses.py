"""Reference table of response kinds (oracle for C06, answer-kind column of C03).

kind: yesno | numeric | numeric_mask | bitmap | generic | enum
bits: LSB-first names (None = unnamed bit).  Provenance: 'std' = written from
IEC 62386-102 Table 15 / -103 Tables 14-16 answer descriptions; 'pinned' = names
taken from the pinned tree (parts 202/205/206/207/209 - documents not available
offline), so for those the bit *names* are a regression oracle while the bit
*semantics* (LSB first, exactly the set bits) are checked independently.
"""

RESPONSES = {
    "YesNoResponse": dict(kind="yesno", prov="std"),
    "NumericResponse": dict(kind="numeric", prov="std"),
    "NumericResponseMask": dict(kind="numeric_mask", prov="std"),
    "Response": dict(kind="generic", prov="std"),
    "QueryDeviceTypeResponse": dict(kind="generic", prov="std"),
    "VoltageResponse": dict(kind="generic", prov="pinned"),
    "QueryFadeTimeAndRateResponse": dict(kind="numeric", prov="std", nibbles=True),
    "OutputLevelResponse": dict(kind="numeric", prov="pinned"),
    "FastFadeTimeResponse": dict(kind="numeric", prov="pinned"),
    "QueryStatusResponse": dict(kind="bitmap", prov="std", bits=[
        "ballast status", "lamp failure", "arc power on", "limit error",
        "fade ready", "reset state", "missing short address", "power failure"]),
    "QueryDeviceStatusResponse": dict(kind="bitmap", prov="std", bits=[
        "input device error", "quiescent mode enabled", "short address is mask",
        "application controller active", "application controller error",
        "power cycle seen", "reset state"]),
    "QueryDeviceCapabilitiesResponse": dict(kind="bitmap", prov="std", bits=[
        "application controller present", "number instances greater than zero",
        "application controller always active"]),
    "QueryInstanceStatusResponse": dict(kind="bitmap", prov="std", bits=[
        "instance error", "instance active"]),
    "QueryEmergencyModeResponse": dict(kind="bitmap", prov="pinned", bits=[
        "rest mode", "normal mode", "emergency mode", "extended emergency mode",
        "function test", "duration test", "hardwired inhibit active", "hardwired switch on"]),
    "QueryEmergencyFeaturesResponse": dict(kind="bitmap", prov="pinned", bits=[
        "integral emergency control gear", "maintained control gear",
        "switched maintained control gear", "auto test capability",
        "adjustable emergency level", "hardwired inhibit supported",
        "physical selection supported", "re-light in rest mode supported"]),
    "QueryEmergencyFailureStatusResponse": dict(kind="bitmap", prov="pinned", bits=[
        "circuit failure", "battery duration failure", "battery failure",
        "emergency lamp failure", "function test max delay exceeded",
        "duration test max delay exceeded", "function test failed", "duration test failed"]),
    "QueryEmergencyStatusResponse": dict(kind="bitmap", prov="pinned", bits=[
        "inhibit mode", "function test done and result valid",
        "duration test done and result valid", "battery fully charged",
        "function test pending", "duration test pending", "identification active",
        "physically selected"]),
    "DimmerStatusResponse": dict(kind="bitmap", prov="pinned", bits=[
        "leading edge mode running", "trailing edge mode running",
        "reference measurement running", None, "non-logarithmic dimming curve active"]),
    "FeaturesByte1Response": dict(kind="bitmap", prov="pinned", bits=[
        "load over-current shutdown can be queried", "open circuit detection can be queried",
        "detection of load decrease can be queried", "detection of load increase can be queried",
        None, "thermal shutdown can be queried",
        "thermal overload with output level reduction can be queried",
        "physical selection supported"]),
    "FailureStatusByte1Response": dict(kind="bitmap", prov="pinned", bits=[
        "load over-current shutdown", "open circuit detected", "load decrease detected",
        "load increase detected", None, "thermal shutdown",
        "thermal overload with output level reduction", "reference measurement failed"]),
    "QueryConverterFeaturesResponse": dict(kind="bitmap", prov="pinned", bits=[
        "0V - 10V output selectable", "internal pull-up selectable",
        "detection of output fault selectable", "mains relay", "output level can be queried",
        "non-logarithmic dimming curve supported",
        "physical selection / lamp fail detection by loss out output supported",
        "physical selection switch supported"]),
    "QueryFailureStatusResponse": dict(kind="bitmap", prov="pinned", bits=["output fault detected"]),
    "QueryConverterStatusResponse": dict(kind="bitmap", prov="pinned", bits=[
        "0-10V operation", "internal pull-up on", "non-logarithmic dimming curve active"]),
    "QueryGearFeaturesStatusResponse": dict(kind="bitmap", prov="pinned", bits=[
        "auto activation enabled", "reserved 1", "reserved 2", "reserved 3", "reserved 4",
        "reserved 5", "auto calibration supported", "auto calibration recovery supported"]),
    "QueryColourStatusResponse": dict(kind="bitmap", prov="pinned", bits=[
        "xy colour point out of range", "colour temperature Tc out of range",
        "auto calibration running", "auto calibration successful", "colour type xy active",
        "colour type colour temperature Tc active", "colour type primary N active",
        "colour type RGBWAF active"]),
    "QueryColourTypeFeaturesResponse": dict(kind="bitmap", prov="pinned", bits=[
        "xy capable", "Tc capable", "primary N bit 0", "primary N bit 1", "primary N bit 2",
        "RGBWAF channels bit 0", "RGBWAF channels bit 1", "RGBWAF channels bit 2"]),
    "QueryRBGWAFControlResponse": dict(kind="bitmap", prov="pinned", bits=[
        "channel 0 red", "channel 1 green", "channel 2 blue", "channel 3 white",
        "channel 4 amber", "channel 5 freecolour", "control type bit 0", "control type bit 1"]),
    "LEDGearTypeResponse": dict(kind="bitmap", prov="pinned", bits=[
        "LED power supply integrated", "LED module integrated", "a.c. supply possible",
        "d.c. supply possible"]),
    "LEDOperatingModesResponse": dict(kind="bitmap", prov="pinned", bits=[
        "PWM mode is possible", "AM mode is possible", "output is current controlled",
        "high current pulse mode"]),
    "LEDFeaturesResponse": dict(kind="bitmap", prov="pinned", bits=[
        "short circuit detection can be queried", "open circuit detection can be queried",
        "detection of load decrease can be queried", "detection of load increase can be queried",
        "current protector is implemented and can be queried", "thermal shut down can be queried",
        "light level reduction due to over temperature can be queried",
        "physical selection supported"]),
    "LEDFailureStatusResponse": dict(kind="bitmap", prov="pinned", bits=[
        "short circuit", "open circuit", "load decrease", "load increase",
        "current protector active", "thermal shut down",
        "thermal overload with light level reduction", "reference measurement failed"]),
    "LEDOperatingModeResponse": dict(kind="bitmap", prov="pinned", bits=[
        "PWM mode active", "AM mode active", "output is current controlled",
        "high current pulse mode is active", "non-logarithmic dimming curve active"]),
    # enum: codes -> member names
    "QueryEventSchemeResponse": dict(kind="enum", prov="std", members={
        0: "instance", 1: "device", 2: "device_instance", 3: "device_group", 4: "instance_group"}),
    "QueryAssignedColourResponse": dict(kind="enum", prov="pinned", mask=True, members={
        0: "not_assigned", 1: "red", 2: "green", 3: "blue", 4: "white", 5: "amber",
        6: "freecolour"}),
}


def mangle(bitname):
    return bitname.replace(" ", "_").replace("-", "")
